//! C20, overlapping renders under Miri: real `std::thread`s whose interleaving Miri's seeded
//! scheduler decides (`-Zmiri-many-seeds`), with Miri's data-race detector watching every memory
//! access — this reaches shared state that does not go through std::sync (UnsafeCell, static mut,
//! core atomics). Argument: workload index (selects expression, paths and thread layout).
use lipe_find_parser::{compile, parse};
use std::sync::Arc;

const EXPRS: [&str; 4] = [
    "-name core -print0",
    "-size +1k -fprint out.txt -o -name x -printf '%p '",
    "-name '*.log' -print",
    "-uid 0 -fprintf a.lst '%p\\n' -fprint0 b.lst",
];
const PATHS: [&str; 6] = ["/dev/mapper/lustre-MDT0000", "/dev/mapper/lustre-MDT0001", "mdt\"2", "trail\\", "/dev/\u{65e5}\u{672c}/a long device name that makes the rendering take a little longer ........................................", "/"];

/// Workloads 100 and up (the Miri pass of C15): 2-3 threads parse and compile the SAME text at the same
/// time, twice each, keep the trees for a while and drop them in a burst; every program and table must
/// equal the sequential one. (None of the texts has a time test.) Shared state that `parse` or
/// `compile` reach without going through std::sync — reference counts of cached trees, `static mut`,
/// `unsafe impl Send` — is a data race here, which Miri reports whatever the timing.
fn parse_compile_workload(index: usize) {
    let expr = EXPRS[index % EXPRS.len()];
    let threads = 2 + (index / EXPRS.len()) % 2;
    let (o, t) = parse(expr).expect("parse");
    let dump = format!("{o:?} {t:?}");
    let reference = compile(&t, &o).expect("compile");
    let expected = reference.scheme(PATHS[0]);
    let expected_table = format!("{:?}", reference.io_map().map(|m| { let mut v: Vec<_> = m.into_iter().collect(); v.sort_by_key(|e| e.0); v }));
    drop(reference);
    drop(t);
    let mut handles = vec![];
    for _ in 0..threads {
        handles.push(std::thread::spawn(move || {
            let mut out = vec![];
            let mut kept = vec![];
            for _ in 0..2 {
                let (o, t) = parse(expr).expect("parse");
                let c = compile(&t, &o).expect("compile");
                out.push((format!("{o:?} {t:?}"), c.scheme(PATHS[0]), format!("{:?}", c.io_map().map(|m| { let mut v: Vec<_> = m.into_iter().collect(); v.sort_by_key(|e| e.0); v }))));
                kept.push((o, t, c));
            }
            drop(kept);
            out
        }));
    }
    let mut bad = 0;
    for (t, h) in handles.into_iter().enumerate() {
        for (d, program, table) in h.join().expect("caller thread panicked") {
            if d != dump || program != expected || table != expected_table {
                bad += 1;
                println!("MISMATCH thread {t}: parse/compile of {expr:?} differs from the sequential result");
            }
        }
    }
    if bad > 0 {
        std::process::exit(1);
    }
}

fn main() {
    let index: usize = std::env::args().nth(1).and_then(|s| s.parse().ok()).unwrap_or(0);
    if index >= 100 {
        return parse_compile_workload(index - 100);
    }
    let expr = EXPRS[index % EXPRS.len()];
    let threads = 2 + (index / EXPRS.len()) % 2;
    let (opts, tree) = parse(expr).expect("parse");
    let compiled = Arc::new(compile(&tree, &opts).expect("compile"));
    drop(tree);
    // sequential reference on a second, separately compiled value
    let (o2, t2) = parse(expr).expect("parse");
    let reference = compile(&t2, &o2).expect("compile");
    let expected: Vec<String> = PATHS.iter().map(|p| reference.scheme(p)).collect();
    let expected_table = format!("{:?}", reference.io_map().map(|m| { let mut v: Vec<_> = m.into_iter().collect(); v.sort_by_key(|e| e.0); v }));
    let mut handles = vec![];
    for t in 0..threads {
        let c = compiled.clone();
        handles.push(std::thread::spawn(move || {
            let mut out = vec![];
            for k in 0..3 {
                let p = (t * 2 + k + index) % PATHS.len();
                out.push((p, c.scheme(PATHS[p])));
                if k == 1 {
                    let tb = format!("{:?}", c.io_map().map(|m| { let mut v: Vec<_> = m.into_iter().collect(); v.sort_by_key(|e| e.0); v }));
                    out.push((usize::MAX, tb));
                }
            }
            out
        }));
    }
    let mut bad = 0;
    for (t, h) in handles.into_iter().enumerate() {
        for (p, text) in h.join().expect("render thread panicked") {
            let want = if p == usize::MAX { &expected_table } else { &expected[p] };
            if text != *want {
                bad += 1;
                println!("MISMATCH thread {t}: result for {} differs from the sequential one", if p == usize::MAX { "io_map()".to_string() } else { format!("scheme({:?})", PATHS[p]) });
            }
        }
    }
    if bad > 0 {
        std::process::exit(1);
    }
}
