#!/usr/bin/env python3
"""expand_uses.py <src dir> — in a COPY of the library (never /repo): rewrite `use std::{a, b::c, d::{e, f}};`
into one `use std::…;` per item, so that the path rewriting of run.sh (std::sync, std::thread, …) sees
every path spelled out. Also `use core::{…}`. Attributes and visibility in front of `use` are kept."""
import os, re, sys

GROUP = re.compile(r"(?P<head>(?:pub(?:\([a-z: ]+\))?\s+)?use\s+(?P<root>std|core)::)\{(?P<body>[^;]*)\}\s*;", re.S)

def split_top(body):
    items, depth, cur = [], 0, ""
    for ch in body:
        if ch == "{":
            depth += 1
        elif ch == "}":
            depth -= 1
        if ch == "," and depth == 0:
            items.append(cur)
            cur = ""
        else:
            cur += ch
    if cur.strip():
        items.append(cur)
    return [i.strip() for i in items if i.strip()]

def expand(src):
    def repl(m):
        items = split_top(m.group("body"))
        out = []
        for it in items:
            if it == "self":
                continue
            out.append(f"{m.group('head')}{it};")
        return "\n".join(out)
    return GROUP.sub(repl, src)

for base, _, files in os.walk(sys.argv[1]):
    for f in files:
        if f.endswith(".rs"):
            p = os.path.join(base, f)
            s = open(p, encoding="utf-8", errors="replace").read()
            t = expand(s)
            if t != s:
                open(p, "w", encoding="utf-8").write(t)
