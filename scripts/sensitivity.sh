#!/bin/sh
# sensitivity.sh [C15|C16|C20|neutral] (parts can run side by side: SENS_SLOT=<name> SENS_OUT=<file> SENS_MATCH=<regex on the change's name>) — for every property-breaking change (mutants/c*.patch, seeded/*/patch.diff),
# one at a time: run the quick check of the property it breaks against a tree with the change and require
# exit 1 with a VIOLATION line and a replay file that reproduces on the changed tree and is quiet on the clean
# one; for every neutral change (mutants/neutral_*.patch, neutral/*/patch.diff) require exit 0 from all three
# checks. Each experiment runs through scripts/try_isolated.sh: an export of /repo's HEAD with the change is
# bind-mounted over /repo in a private mount namespace and a scratch copy of /verif runs there, so neither
# /repo nor /verif (evidence, replays) is touched. Not referenced by MANIFEST.json.
# Results: /verif/sensitivity_results.txt (only when run without an argument)
set -u
ROOT="$(cd "$(dirname "$0")/.." && pwd)"
ONLY="${1:-}"
SLOT="${SENS_SLOT:-sens}"
OUT="${SENS_OUT:-$ROOT/sensitivity_results.txt}"
[ -n "$ONLY" ] && [ -z "${SENS_OUT:-}" ] && OUT="/dev/null"
: > "$OUT"
# freeze the machinery under test: later edits in /verif do not leak into a running experiment series
export VERIF_SRC="/tmp/iso-$SLOT-src"
rm -rf "$VERIF_SRC"; mkdir -p "$VERIF_SRC"
rsync -a --exclude target --exclude .git --exclude replays --exclude evidence --exclude 'target.build.log*' "$ROOT/" "$VERIF_SRC/"
MATCH="${SENS_MATCH:-.}"
run_breaking() { # name patch property
    if [ -n "$ONLY" ] && [ "$ONLY" != "$3" ]; then return; fi
    echo "$1" | grep -qE "$MATCH" || return
    line=$("$ROOT/scripts/try_isolated.sh" "$SLOT" "$2" "$3" breaking 2>&1 | grep -aE '^(CAUGHT|MISSED)' | head -1 | cut -c1-400)
    verdict=${line%% *}; rest=${line#* }
    echo "${verdict:-MISSED} $1 $rest" | tee -a "$OUT"
}
run_neutral() { # name patch
    if [ -n "$ONLY" ] && [ "$ONLY" != neutral ]; then return; fi
    echo "$1" | grep -qE "$MATCH" || return
    line=$("$ROOT/scripts/try_isolated.sh" "$SLOT" "$2" C15 neutral 2>&1 | grep -aE '^(QUIET|ALARM)' | head -1)
    verdict=${line%% *}; rest=${line#* }
    echo "${verdict:-ALARM} $1 (neutral change) $rest" | tee -a "$OUT"
}
for p in "$ROOT"/mutants/c1*.patch "$ROOT"/mutants/c2*.patch; do
    [ -f "$p" ] || continue
    n=$(basename "$p" .patch); prop=$(echo "$n" | cut -c1-3 | tr c C)
    run_breaking "$n" "$p" "$prop"
done
for d in "$ROOT"/seeded/*/; do
    [ -f "$d/patch.diff" ] || continue
    n=$(basename "$d"); prop=$(python3 -c "import json,sys;print(json.load(open(sys.argv[1]))['property'])" "$d/meta.json" 2>/dev/null || echo "$n" | cut -c1-3 | tr c C)
    run_breaking "seeded/$n" "$d/patch.diff" "$prop"
done
for p in "$ROOT"/mutants/neutral_*.patch; do
    [ -f "$p" ] || continue
    run_neutral "$(basename "$p" .patch)" "$p"
done
# correct, non-trivial changes written by sub-agents (new features, caches, refactored emitted code)
for d in "$ROOT"/neutral/*/; do
    [ -f "$d/patch.diff" ] || continue
    run_neutral "neutral/$(basename "$d")" "$d/patch.diff"
done
# the unchanged tree
if { [ -z "$ONLY" ] || [ "$ONLY" = neutral ]; } && echo "clean tree" | grep -qE "$MATCH"; then
    line=$("$ROOT/scripts/try_isolated.sh" "$SLOT" - C15 neutral 2>&1 | grep -aE '^(QUIET|ALARM)' | head -1)
    echo "clean tree: $line" | tee -a "$OUT"
fi
"$ROOT/scripts/try_isolated.sh" "$SLOT" clean
rm -rf "$VERIF_SRC"
