#!/bin/sh
# sensitivity.sh — apply every property-breaking change (mutants/c*.patch, seeded/*/patch.diff) to /repo,
# one at a time, run the quick check of the property it breaks and require exit 1 with a VIOLATION line and
# a replay file that reproduces; apply every neutral refactor (mutants/neutral_*.patch) and require exit 0
# from all three checks. /repo is restored after each (git checkout -- .). Not referenced by MANIFEST.json.
# Results: /verif/sensitivity_results.txt
set -u
ROOT="$(cd "$(dirname "$0")/.." && pwd)"
ONLY="${1:-}"   # optional: C15 | C16 | C20 - run only the changes breaking that property (results go to stdout only)
OUT="$ROOT/sensitivity_results.txt"
[ -n "$ONLY" ] && OUT="/dev/null"
cd /repo || exit 2
if [ -n "$(git status --porcelain)" ]; then echo "/repo has local changes or untracked files; refusing"; exit 2; fi
: > "$OUT"
run_breaking() { # name patch property
    name="$1"; patch="$2"; prop="$3"
    if [ -n "$ONLY" ] && [ "$ONLY" != "$prop" ]; then return; fi
    git apply "$patch" || { echo "$name: patch does not apply" | tee -a "$OUT"; return; }
    log=$(cd "$ROOT" && ./run.sh "$prop" quick 2>&1); code=$?
    line=$(printf '%s\n' "$log" | grep '^VIOLATION' | head -1)
    class=$(printf '%s\n' "$log" | grep '^violation class=' | head -1 | sed 's/ detail:.*//')
    replay=$(printf '%s\n' "$line" | sed 's/.*replay=//')
    rcode="-"
    if [ -n "$replay" ] && [ -f "$replay" ]; then (cd "$ROOT" && ./run.sh replay "$replay" >/dev/null 2>&1); rcode=$?; fi
    git checkout -- . ; git clean -fdq src examples; find /repo -name '*.snap.new' -delete
    ucode="-"
    if [ -n "$replay" ] && [ -f "$replay" ]; then (cd "$ROOT" && ./run.sh replay "$replay" >/dev/null 2>&1); ucode=$?; rm -f "$replay"; fi
    if [ "$code" = 1 ] && [ "$rcode" = 1 ] && [ "$ucode" = 0 ]; then verdict=CAUGHT; else verdict=MISSED; fi
    echo "$verdict $name property=$prop check_exit=$code replay_on_changed_tree=$rcode replay_on_clean_tree=$ucode $class" | tee -a "$OUT"
}
run_neutral() { # name patch
    name="$1"; patch="$2"
    if [ -n "$ONLY" ]; then return; fi
    git apply "$patch" || { echo "$name: patch does not apply" | tee -a "$OUT"; return; }
    res=""
    for prop in C15 C16 C20; do
        (cd "$ROOT" && ./run.sh "$prop" quick >/dev/null 2>&1); res="$res $prop=$?"
    done
    git checkout -- . ; git clean -fdq src examples; find /repo -name '*.snap.new' -delete
    case "$res" in *"=1"*|*"=2"*) verdict=ALARM ;; *) verdict=QUIET ;; esac
    echo "$verdict $name (neutral refactor)$res" | tee -a "$OUT"
}
for p in "$ROOT"/mutants/c1*.patch "$ROOT"/mutants/c2*.patch; do
    [ -f "$p" ] || continue
    n=$(basename "$p" .patch); prop=$(echo "$n" | cut -c1-3 | tr c C)
    run_breaking "$n" "$p" "$prop"
done
for d in "$ROOT"/seeded/*/; do
    [ -f "$d/patch.diff" ] || continue
    n=$(basename "$d"); prop=$(python3 -c "import json,sys;print(json.load(open(sys.argv[1]))['property'])" "$d/meta.json" 2>/dev/null || echo "$n" | cut -c1-3 | tr c C)
    run_breaking "seeded/$n" "$d/patch.diff" "$prop"
done
for p in "$ROOT"/mutants/neutral_*.patch; do
    [ -f "$p" ] || continue
    run_neutral "$(basename "$p" .patch)" "$p"
done
# correct, non-trivial changes written by sub-agents (new features, caches, refactored emitted code)
for d in "$ROOT"/neutral/*/; do
    [ -f "$d/patch.diff" ] || continue
    run_neutral "neutral/$(basename "$d")" "$d/patch.diff"
done
(cd "$ROOT" && for prop in C15 C16 C20; do if [ -n "$ONLY" ] && [ "$ONLY" != "$prop" ]; then continue; fi; ./run.sh $prop quick >/dev/null 2>&1; echo "clean tree $prop exit=$?"; done) | tee -a "$OUT"
