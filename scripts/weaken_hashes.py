#!/usr/bin/env python3
"""weaken_hashes.py --check <src dir>      exit 0 if there is something to weaken, 1 otherwise
weaken_hashes.py --rewrite <src dir>    rewrite in place (a COPY of the library, never /repo)

Part of the weak-hash pass (run.sh build_weak, DESIGN.md 5.7). Two kinds of general-purpose,
non-injective hash functions are weakened so that their collisions — legal events that are merely
rare — become common:

* std's unkeyed `DefaultHasher`: done by run.sh with sed (a stand-in type with a seven-value digest);
* hand-written hash functions: a `fn` that returns an unsigned integer and whose body contains one of
  the well-known constants of FNV-1/1a, CRC-32(C), Adler-32, djb2, MurmurHash2/3, SplitMix64 or the
  golden-ratio multiplier. Such a function keeps its name and signature; its body moves to
  `__verif_strong_<name>` and the function returns that result modulo 7.

A function that merely has "hash" in its name is NOT touched: it might be injective on its domain
(a perfect hash, an id), and collisions that cannot occur must not be invented.
"""
import os
import re
import sys

CONSTANTS = [
    "0x100000001b3", "1099511628211", "0xcbf29ce484222325", "14695981039346656037",  # FNV 64
    "0x01000193", "0x1000193", "16777619", "0x811c9dc5", "2166136261",  # FNV 32
    "0xedb88320", "0x04c11db7", "0x4c11db7", "0x82f63b78", "0x1edc6f41",  # CRC-32, CRC-32C
    "65521",  # Adler-32
    "5381",  # djb2
    "0x9e3779b97f4a7c15", "0x9e3779b9", "11400714819323198485", "2654435769",  # golden ratio
    "0xc6a4a7935bd1e995", "0x5bd1e995", "0xff51afd7ed558ccd", "0xc4ceb9fe1a85ec53", "0xcc9e2d51", "0x1b873593",  # Murmur
    "0xbf58476d1ce4e5b9", "0x94d049bb133111eb",  # SplitMix64
]
SIG = re.compile(
    r"(?P<head>(?:pub(?:\([a-z: ]+\))?\s+)?(?:const\s+)?fn\s+)(?P<name>[A-Za-z_][A-Za-z0-9_]*)\s*"
    r"(?P<generics><[^>{}]*>)?\s*\((?P<args>[^{};]*?)\)\s*->\s*(?P<ret>u8|u16|u32|u64|u128|usize)\s*(?P<where>where[^{};]*)?\{",
    re.S,
)


def body_end(src, open_at):
    depth, i, n = 0, open_at, len(src)
    while i < n:
        c = src[i]
        if c == '"':  # skip string literals
            i += 1
            while i < n and src[i] != '"':
                i += 2 if src[i] == "\\" else 1
        elif c == "/" and src[i : i + 2] == "//":
            while i < n and src[i] != "\n":
                i += 1
        elif c == "{":
            depth += 1
        elif c == "}":
            depth -= 1
            if depth == 0:
                return i
        i += 1
    return -1


def candidates(src):
    out = []
    for m in SIG.finditer(src):
        open_at = m.end() - 1
        end = body_end(src, open_at)
        if end < 0:
            continue
        body = src[open_at : end + 1].lower().replace("_", "")
        if any(re.search(r"(?<![0-9a-fx])" + re.escape(c) + r"(?![0-9a-f])", body) for c in CONSTANTS):
            out.append((m, open_at, end))
    return out


def arg_names(args):
    names, recv = [], None
    depth, cur, parts = 0, "", []
    for ch in args:
        if ch in "<([":
            depth += 1
        elif ch in ">)]":
            depth -= 1
        if ch == "," and depth == 0:
            parts.append(cur)
            cur = ""
        else:
            cur += ch
    if cur.strip():
        parts.append(cur)
    for p in parts:
        p = p.strip()
        if re.fullmatch(r"(&\s*(mut\s+)?|mut\s+)?self", p) or p.startswith("self:"):
            recv = "self"
            continue
        name = p.split(":", 1)[0].strip()
        name = re.sub(r"^mut\s+", "", name)
        if not re.fullmatch(r"[A-Za-z_][A-Za-z0-9_]*", name):
            return None, None  # a pattern in argument position: leave the function alone
        names.append(name)
    return recv, names


def rewrite(src):
    done = 0
    for m, open_at, end in reversed(candidates(src)):
        recv, names = arg_names(m.group("args"))
        if names is None or "const" in m.group("head"):
            continue
        name = m.group("name")
        strong = "__verif_strong_" + name
        call = (f"self.{strong}(" if recv else f"{strong}(") + ", ".join(names) + ")"
        sig_rest = src[m.start("name") + len(name) : open_at]
        wrapper = f"{m.group('head')}{name}{sig_rest}{{ {call} % 7 }}\n#[allow(dead_code, non_snake_case)]\n"
        # inside an impl block an associated function without receiver is called through Self
        if not recv and re.search(r"\bimpl\b[^{;]*\{[^}]*$", src[: m.start()], re.S) and src[: m.start()].count("{") > src[: m.start()].count("}"):
            wrapper = wrapper.replace(f"{{ {strong}(", f"{{ Self::{strong}(")
        src = src[: m.start()] + wrapper + f"{m.group('head')}{strong}" + src[m.start("name") + len(name) :]
        done += 1
    return src, done


def main():
    mode, root = sys.argv[1], sys.argv[2]
    total = 0
    for base, _, files in sorted(os.walk(root)):
        for f in sorted(files):
            if not f.endswith(".rs") or f.startswith("__verif_"):
                continue
            path = os.path.join(base, f)
            src = open(path, encoding="utf-8", errors="replace").read()
            if mode == "--check":
                total += len(candidates(src))
            else:
                new, n = rewrite(src)
                if n:
                    open(path, "w", encoding="utf-8").write(new)
                total += n
    if mode == "--check":
        sys.exit(0 if total else 1)
    print(f"weakened {total} hand-written hash function(s)")


main()
