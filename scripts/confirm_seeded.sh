#!/bin/sh
# confirm_seeded.sh <scratch worktree> <seeded id> <demo test file name in demo/>
# Confirms, in the scratch worktree (never in /repo): with patch.diff applied the 45 tests pass and the
# demonstration fails; without it the demonstration passes. Then stores the change under /verif/seeded/<id>/.
set -u
WT="$1"; ID="$2"; DEMO="$3"
cd "$WT" || exit 2
git checkout -q -- . ; rm -rf tests
git apply --check patch.diff || { echo "patch does not apply"; exit 1; }
git apply patch.diff
T1=$(cargo test --offline --lib 2>&1 | grep "test result" | head -1)
mkdir -p tests && cp "demo/$DEMO" tests/
D1=$(cargo test --offline --test "${DEMO%.rs}" -- --test-threads=1 2>&1 | grep "test result" | head -1)
git checkout -q -- .
D0=$(cargo test --offline --test "${DEMO%.rs}" -- --test-threads=1 2>&1 | grep "test result" | head -1)
rm -rf tests target
echo "suite with change : $T1"
echo "demo with change  : $D1"
echo "demo without      : $D0"
mkdir -p "/verif/seeded/$ID"
cp patch.diff "/verif/seeded/$ID/patch.diff"
cp -r demo "/verif/seeded/$ID/"
[ -f NOTES.md ] && cp NOTES.md "/verif/seeded/$ID/NOTES.md"
printf '%s\n%s\n%s\n' "suite with change : $T1" "demo with change  : $D1" "demo without      : $D0" > "/verif/seeded/$ID/confirmation.txt"
