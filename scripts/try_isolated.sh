#!/bin/sh
# try_isolated.sh <slot> <patch file | -> <C15|C16|C20> [breaking|neutral]
# Same experiment as sensitivity.sh for ONE change, but without touching /repo or /verif: a scratch export
# of /repo (HEAD) with the patch applied is bind-mounted over /repo inside a private mount namespace
# (unshare -m), and a scratch copy of /verif (own target directory) runs the check there. Several slots can
# run side by side, and background thorough runs that build from the real /repo are not disturbed.
# Scratch: /tmp/iso-<slot>/{wt,clean,verif}; remove with:  try_isolated.sh <slot> clean
set -u
SLOT="$1"; PATCH="${2:-}"; PROP="${3:-}"; KIND="${4:-breaking}"
BASE="/tmp/iso-$SLOT"
if [ "$PATCH" = clean ]; then
    rm -rf "$BASE"; exit 0
fi
mkdir -p "$BASE"
# plain exports of /repo's HEAD (no .git: a worktree's gitfile would point below the hidden real /repo)
# (files are touched: cargo decides freshness by mtime, and an export carries the commit's time)
fresh() { rm -rf "$1"; mkdir -p "$1"; git -C /repo archive HEAD | tar -x -C "$1"; find "$1" -type f -exec touch {} +; }
fresh "$BASE/wt"; fresh "$BASE/clean"
if [ "$PATCH" != - ]; then (cd "$BASE/wt" && git apply "$PATCH") || { echo "patch does not apply"; exit 2; }; fi
rsync -a --delete --exclude target --exclude .git --exclude replays --exclude evidence --exclude 'target.build.log*' "${VERIF_SRC:-/verif}/" "$BASE/verif/"
export BASE PROP KIND
unshare -m sh -c '
    mount --bind "$BASE/wt" /repo || exit 2
    cd "$BASE/verif" || exit 2
    if [ "$KIND" = neutral ]; then
        res=""
        for p in ${NEUTRAL_PROPS:-C15 C16 C20}; do ./run.sh $p quick >"$BASE/neutral-$p.log" 2>&1; res="$res $p=$?"; done
        case "$res" in *"=1"*|*"=2"*) echo "ALARM$res" ;; *) echo "QUIET$res" ;; esac
        # what the quiet covered: skipped passes, programs set aside, concurrent-pass reach
        grep -ah "^note:\|skipped\|set aside\|concurrent pass:\|discarded" "$BASE"/neutral-C*.log | cut -c1-300
        exit 0
    fi
    log=$(./run.sh "$PROP" quick 2>&1); code=$?
    line=$(printf "%s\n" "$log" | grep "^VIOLATION" | head -1)
    class=$(printf "%s\n" "$log" | grep "^violation class=" | head -1 | cut -c1-300)
    replay=$(printf "%s\n" "$line" | sed "s/.*replay=//")
    rcode="-"; ucode="-"
    if [ -n "$replay" ] && [ -f "$replay" ]; then ./run.sh replay "$replay" >/dev/null 2>&1; rcode=$?; fi
    umount /repo; mount --bind "$BASE/clean" /repo || exit 2
    find /repo -type f -exec touch {} +
    if [ -n "$replay" ] && [ -f "$replay" ]; then ./run.sh replay "$replay" >/dev/null 2>&1; ucode=$?; fi
    if [ "$code" = 1 ] && [ "$rcode" = 1 ] && [ "$ucode" = 0 ]; then verdict=CAUGHT; else verdict=MISSED; fi
    echo "$verdict property=$PROP check_exit=$code replay_on_changed_tree=$rcode replay_on_clean_tree=$ucode $class"
    if [ "$code" != 1 ]; then printf "%s\n" "$log" | tail -5; fi
'
