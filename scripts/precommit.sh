#!/bin/sh
# Run before committing: /repo must be clean, all three quick checks must exit 0 on it, MANIFEST and evidence must validate.
set -u
ROOT="$(cd "$(dirname "$0")/.." && pwd)"
if [ -n "$(git -C /repo status --porcelain)" ]; then echo "precommit: /repo has local changes or untracked files"; exit 1; fi
cd "$ROOT" || exit 2
rm -f replays/*.json
for p in C15 C16 C20; do
    ./run.sh $p quick | tail -1
    code=$?
done
for p in C15 C16 C20; do
    v=$(python3 -c "import json;print(json.load(open('evidence/$p.json'))['violations'])")
    [ "$v" = 0 ] || { echo "precommit: evidence/$p.json records violations=$v"; exit 1; }
done
python3-vt - <<'PY'
import json, jsonschema
m = json.load(open('/verif/MANIFEST.json'))
jsonschema.validate(m, json.load(open('/root/.vp/MANIFEST.schema.json')))
for c in m['checks']:
    jsonschema.validate(json.load(open('/verif/' + c['evidence_file'])), json.load(open('/root/.vp/EVIDENCE.schema.json')))
ids = {json.loads(l)['id'] for l in open('/verif/properties.jsonl')}
claimed = {c['property_id'] for c in m['checks']}
na = {x['property_id'] for x in m['not_applicable']}
assert claimed | na == ids and not (claimed & na), (ids - claimed - na, claimed & na)
print('precommit: manifest and evidence valid; every property claimed or not_applicable')
PY
