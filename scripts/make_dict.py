#!/usr/bin/env python3
"""make_dict.py <repo> <out.json>
Harvest the string literals of the library's source (as fuzzers harvest a dictionary from the binary under
test): every literal, and its pieces between blanks and format holes, that could be typed as one word of a
find expression. The generators use them as user strings (names, patterns, pool names, formats), so that an
internal marker, slot name or reserved prefix introduced by a change meets itself in user input."""
import json, os, re, sys

repo, out = sys.argv[1], sys.argv[2]
lit = re.compile(r'"((?:[^"\\]|\\.)*)"', re.S)
raw = re.compile(r'r(#*)"(.*?)"\1', re.S)
word = re.compile(r'^[A-Za-z0-9%:_./{}<>@#$+=,~^\-\u0080-\U0010ffff]{2,40}$')
tokens = set()
options = set()
optword = re.compile(r'^-[A-Za-z][A-Za-z0-9-]{1,24}$')

def unescape(s):
    s = re.sub(r'\\u\{([0-9a-fA-F]{1,6})\}', lambda m: chr(int(m.group(1), 16)), s)
    s = re.sub(r'\\x([0-9a-fA-F]{2})', lambda m: chr(int(m.group(1), 16)), s)
    return s.replace('\\"', '"').replace("\\\\", "\\").replace("\\n", "\n").replace("\\t", "\t")

def add(text):
    pieces = {text}
    pieces.update(re.split(r'\s+', text))
    pieces.update(re.split(r'\s+|\{[^{}]*\}', text))
    for p in list(pieces):
        pieces.add(p.strip('"\'()[]'))
    for p in pieces:
        if optword.match(p):
            options.add(p)
        if word.match(p) and not p.startswith('-') and not p.isdigit():
            tokens.add(p)

for base, _, files in sorted(os.walk(os.path.join(repo, "src"))):
    for f in sorted(files):
        if not f.endswith(".rs"):
            continue
        src = open(os.path.join(base, f), encoding="utf-8", errors="replace").read()
        src = "\n".join(l for l in src.split("\n") if not l.lstrip().startswith("//"))
        for m in raw.finditer(src):
            add(m.group(2))
        for m in lit.finditer(src):
            add(unescape(m.group(1)))
json.dump(sorted(tokens), open(out, "w"), ensure_ascii=False, indent=0)
# words that look like options, tests or actions of a find expression: the generators try them as
# leading options and as leaves, so that syntax added by a change is exercised the day it is written
json.dump(sorted(options), open(out.replace("dict.json", "dict_options.json"), "w"), indent=0)
