//! Lexer and reader for the subset of Guile's lexical syntax that emitted programs use.
//!
//! The lexer is deliberately strict: anything it does not know (an unknown string escape, an
//! unterminated string, an unknown `#` syntax) is an error, because for the properties that use
//! it "the program still reads the same way" is exactly what is being decided.

use std::fmt;

#[derive(Clone, Debug, PartialEq)]
pub enum Tok {
    Open,
    Close,
    Quote,
    Str(String),
    Char(char),
    Bool(bool),
    Int(i128),
    Sym(String),
}

#[derive(Clone, Debug, PartialEq)]
pub struct LexError {
    pub at: usize,
    pub what: String,
}

impl fmt::Display for LexError {
    fn fmt(&self, f: &mut fmt::Formatter) -> fmt::Result {
        write!(f, "{} at byte {}", self.what, self.at)
    }
}

fn is_delim(c: char) -> bool {
    c.is_whitespace() || matches!(c, '(' | ')' | '"' | ';' | '\'')
}

pub fn lex(text: &str) -> Result<Vec<Tok>, LexError> {
    Ok(lex_spans(text)?.into_iter().map(|(t, _, _)| t).collect())
}

/// Tokens with their byte spans `[start, end)` in the text.
pub fn lex_spans(text: &str) -> Result<Vec<(Tok, usize, usize)>, LexError> {
    let chars: Vec<(usize, char)> = text.char_indices().collect();
    let byte_at = |i: usize| chars.get(i).map(|c| c.0).unwrap_or(text.len());
    let mut i = 0;
    let mut out: Vec<(Tok, usize, usize)> = vec![];
    let mut toks: Vec<Tok> = vec![];
    let mut starts: Vec<usize> = vec![];
    let err = |at: usize, what: &str| LexError { at, what: what.to_string() };
    while i < chars.len() {
        // close the span of the token pushed by the previous iteration
        while out.len() < toks.len() {
            let k = out.len();
            out.push((toks[k].clone(), starts[k], byte_at(i)));
        }
        let (pos, c) = chars[i];
        if !c.is_whitespace() && c != ';' {
            starts.push(pos);
            starts.truncate(toks.len() + 1);
        }
        if c.is_whitespace() {
            i += 1;
        } else if c == ';' {
            while i < chars.len() && chars[i].1 != '\n' {
                i += 1;
            }
        } else if c == '(' {
            toks.push(Tok::Open);
            i += 1;
        } else if c == ')' {
            toks.push(Tok::Close);
            i += 1;
        } else if c == '\'' {
            toks.push(Tok::Quote);
            i += 1;
        } else if c == '"' {
            i += 1;
            let mut s = String::new();
            loop {
                if i >= chars.len() {
                    return Err(err(pos, "unterminated string"));
                }
                let (p, ch) = chars[i];
                i += 1;
                match ch {
                    '"' => break,
                    '\\' => {
                        if i >= chars.len() {
                            return Err(err(p, "backslash at end of input inside string"));
                        }
                        let (_, e) = chars[i];
                        i += 1;
                        match e {
                            '\\' => s.push('\\'),
                            '"' => s.push('"'),
                            'n' => s.push('\n'),
                            't' => s.push('\t'),
                            'a' => s.push('\u{7}'),
                            'b' => s.push('\u{8}'),
                            'f' => s.push('\u{c}'),
                            'r' => s.push('\r'),
                            'v' => s.push('\u{b}'),
                            '0' => s.push('\0'),
                            'x' => {
                                // Guile: \xHH (exactly two hex digits)
                                let mut v = 0u32;
                                for _ in 0..2 {
                                    let d = chars.get(i).and_then(|(_, h)| h.to_digit(16));
                                    match d {
                                        Some(d) => {
                                            v = v * 16 + d;
                                            i += 1;
                                        }
                                        None => return Err(err(p, "bad \\x escape in string")),
                                    }
                                }
                                s.push(char::from_u32(v).unwrap_or('?'));
                            }
                            '\n' => {
                                // line continuation: skip leading whitespace of the next line
                                while i < chars.len() && (chars[i].1 == ' ' || chars[i].1 == '\t') {
                                    i += 1;
                                }
                            }
                            other => return Err(err(p, &format!("unknown string escape \\{other}"))),
                        }
                    }
                    other => s.push(other),
                }
            }
            toks.push(Tok::Str(s));
        } else if c == '#' {
            let next = chars.get(i + 1).map(|x| x.1);
            match next {
                Some('\\') => {
                    // character: #\x1e, #\a, #\space, #\( ...
                    let start = i + 2;
                    if start >= chars.len() {
                        return Err(err(pos, "character syntax at end of input"));
                    }
                    let mut j = start + 1;
                    while j < chars.len() && !is_delim(chars[j].1) {
                        j += 1;
                    }
                    let name: String = chars[start..j].iter().map(|x| x.1).collect();
                    let ch = if name.chars().count() == 1 {
                        name.chars().next().unwrap()
                    } else if let Some(hex) = name.strip_prefix('x') {
                        match u32::from_str_radix(hex, 16).ok().and_then(char::from_u32) {
                            Some(c) => c,
                            None => return Err(err(pos, &format!("bad character #\\{name}"))),
                        }
                    } else {
                        match name.as_str() {
                            "space" => ' ',
                            "newline" | "nl" | "linefeed" => '\n',
                            "tab" => '\t',
                            "nul" | "null" => '\0',
                            "return" => '\r',
                            "alarm" => '\u{7}',
                            "backspace" => '\u{8}',
                            "delete" | "del" | "rubout" => '\u{7f}',
                            "escape" | "esc" | "altmode" => '\u{1b}',
                            "page" => '\u{c}',
                            "vtab" => '\u{b}',
                            _ => return Err(err(pos, &format!("unknown character name #\\{name}"))),
                        }
                    };
                    toks.push(Tok::Char(ch));
                    i = j;
                }
                Some('t') | Some('f') => {
                    let mut j = i + 1;
                    while j < chars.len() && !is_delim(chars[j].1) {
                        j += 1;
                    }
                    let name: String = chars[i + 1..j].iter().map(|x| x.1).collect();
                    match name.as_str() {
                        "t" | "true" => toks.push(Tok::Bool(true)),
                        "f" | "false" => toks.push(Tok::Bool(false)),
                        _ => return Err(err(pos, &format!("unknown # syntax #{name}"))),
                    }
                    i = j;
                }
                Some(r @ ('o' | 'x' | 'b' | 'd')) => {
                    let mut j = i + 2;
                    while j < chars.len() && !is_delim(chars[j].1) {
                        j += 1;
                    }
                    let digits: String = chars[i + 2..j].iter().map(|x| x.1).collect();
                    let radix = match r {
                        'o' => 8,
                        'x' => 16,
                        'b' => 2,
                        _ => 10,
                    };
                    match i128::from_str_radix(&digits, radix) {
                        Ok(v) => toks.push(Tok::Int(v)),
                        Err(_) => return Err(err(pos, &format!("bad number #{r}{digits}"))),
                    }
                    i = j;
                }
                _ => return Err(err(pos, "unknown # syntax")),
            }
        } else {
            let mut j = i;
            while j < chars.len() && !is_delim(chars[j].1) {
                j += 1;
            }
            let word: String = chars[i..j].iter().map(|x| x.1).collect();
            let numeric = {
                let w = word.strip_prefix('-').or(word.strip_prefix('+')).unwrap_or(&word);
                !w.is_empty() && w.chars().all(|c| c.is_ascii_digit())
            };
            if numeric {
                match word.parse::<i128>() {
                    Ok(v) => toks.push(Tok::Int(v)),
                    Err(_) => return Err(err(pos, "integer too large")),
                }
            } else {
                toks.push(Tok::Sym(word));
            }
            i = j;
        }
    }
    while out.len() < toks.len() {
        let k = out.len();
        out.push((toks[k].clone(), starts[k], text.len()));
    }
    Ok(out)
}

#[derive(Clone, Debug, PartialEq)]
pub enum Sexp {
    List(Vec<Sexp>),
    Str(String),
    Char(char),
    Bool(bool),
    Int(i128),
    Sym(String),
}

/// Read all top-level forms.
pub fn read_all(text: &str) -> Result<Vec<Sexp>, String> {
    let toks = lex(text).map_err(|e| e.to_string())?;
    let mut pos = 0;
    let mut forms = vec![];
    while pos < toks.len() {
        forms.push(read_form(&toks, &mut pos)?);
    }
    Ok(forms)
}

fn read_form(toks: &[Tok], pos: &mut usize) -> Result<Sexp, String> {
    let t = toks.get(*pos).ok_or("unexpected end of program")?;
    *pos += 1;
    Ok(match t {
        Tok::Open => {
            let mut items = vec![];
            loop {
                match toks.get(*pos) {
                    None => return Err("missing closing parenthesis".into()),
                    Some(Tok::Close) => {
                        *pos += 1;
                        break;
                    }
                    Some(_) => items.push(read_form(toks, pos)?),
                }
            }
            Sexp::List(items)
        }
        Tok::Close => return Err("unexpected closing parenthesis".into()),
        Tok::Quote => {
            let inner = read_form(toks, pos)?;
            Sexp::List(vec![Sexp::Sym("quote".into()), inner])
        }
        Tok::Str(s) => Sexp::Str(s.clone()),
        Tok::Char(c) => Sexp::Char(*c),
        Tok::Bool(b) => Sexp::Bool(*b),
        Tok::Int(i) => Sexp::Int(*i),
        Tok::Sym(s) => Sexp::Sym(s.clone()),
    })
}
