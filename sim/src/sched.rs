//! Schedulers for the scanner threads, all driven by the simulator's own PRNG and all recording
//! the sequence of choices they made, so that any execution can be replayed exactly from its
//! explicit choice list.

use crate::rng::Rng;
use shuttle::scheduler::{Schedule, Scheduler, Task, TaskId};
use std::collections::BTreeMap;
use std::sync::atomic::{AtomicBool, Ordering};
use std::sync::{Arc, Mutex};

#[derive(Clone, Debug, PartialEq)]
pub enum Strategy {
    /// uniform over runnable threads at every scheduling point
    Random,
    /// keep running the current thread with probability stay/100, else uniform
    Sticky { stay: u64 },
    /// PCT: random distinct priorities, `depth - 1` priority change points among `est_steps`
    Pct { depth: usize, est_steps: usize },
    /// explicit choice list
    Replay(Vec<u32>),
}

impl Strategy {
    pub fn name(&self) -> &'static str {
        match self {
            Strategy::Random => "random",
            Strategy::Sticky { .. } => "sticky",
            Strategy::Pct { .. } => "pct",
            Strategy::Replay(_) => "replay",
        }
    }
}

pub struct Shared {
    /// set by the simulated runtime right before a scheduling point: "the current thread is about
    /// to block for a while" (a large write to a full pipe) — the scheduler then keeps it off the
    /// CPU for that many decisions as long as another thread can run
    pub stall_request: Mutex<Option<usize>>,
    pub stalls_started: std::sync::atomic::AtomicU64,
    pub choices: Mutex<Vec<u32>>,
    /// a replayed choice was not runnable (the replay file does not fit the program)
    pub diverged: AtomicBool,
}

pub struct SimScheduler {
    strategy: Strategy,
    rng: Rng,
    started: bool,
    step: usize,
    priorities: BTreeMap<usize, i64>,
    change_points: Vec<usize>,
    lowest: i64,
    shared: Arc<Shared>,
    /// (task, remaining decisions) of a thread stalled in a large write
    stalled: Option<(usize, usize)>,
    /// decision number at which each task last ran (fairness: see FAIR_AFTER)
    last_ran: BTreeMap<usize, usize>,
    decisions: usize,
}

/// A runnable thread that has not been chosen for this many decisions runs next. Real schedulers
/// are fair in this weak sense; without it a thread that polls (a spin on `try-mutex`, on
/// `mutex-locked?`, on an atomic box) can be chosen forever by a priority or sticky strategy and a
/// correct program would be reported as making no progress. Deadlocks (no thread runnable) are
/// not affected.
const FAIR_AFTER: usize = 1500;

impl SimScheduler {
    pub fn new(strategy: Strategy, seed: u64) -> (SimScheduler, Arc<Shared>) {
        let shared = Arc::new(Shared { stall_request: Mutex::new(None), stalls_started: std::sync::atomic::AtomicU64::new(0), choices: Mutex::new(vec![]), diverged: AtomicBool::new(false) });
        let mut rng = Rng::new(seed);
        let mut change_points = vec![];
        if let Strategy::Pct { depth, est_steps } = &strategy {
            for _ in 1..*depth {
                change_points.push(1 + rng.usize_below((*est_steps).max(2)));
            }
        }
        (
            SimScheduler { strategy, rng, started: false, step: 0, priorities: BTreeMap::new(), change_points, lowest: 0, shared: shared.clone(), stalled: None, last_ran: BTreeMap::new(), decisions: 0 },
            shared,
        )
    }
}

impl Scheduler for SimScheduler {
    fn new_execution(&mut self) -> Option<Schedule> {
        if self.started {
            return None;
        }
        self.started = true;
        Some(Schedule::new(0))
    }

    fn next_task(&mut self, runnable: &[&Task], current: Option<TaskId>, is_yielding: bool) -> Option<TaskId> {
        let mut ids: Vec<usize> = runnable.iter().map(|t| usize::from(t.id())).collect();
        let cur = current.map(usize::from);
        self.decisions += 1;
        for id in &ids {
            self.last_ran.entry(*id).or_insert(self.decisions);
        }
        let mut forced = None;
        if !matches!(self.strategy, Strategy::Replay(_)) {
            // the current thread gives way (a failed try-mutex, a poll, a pause): somebody else runs
            if is_yielding && ids.len() > 1 {
                if let Some(c) = cur {
                    ids.retain(|i| *i != c);
                    if matches!(self.strategy, Strategy::Pct { .. }) {
                        self.lowest -= 1;
                        self.priorities.insert(c, self.lowest);
                    }
                }
            }
            if let (Some(n), Some(c)) = (self.shared.stall_request.lock().unwrap().take(), cur) {
                self.stalled = Some((c, n));
                self.shared.stalls_started.fetch_add(1, Ordering::SeqCst);
            }
            if let Some((task, left)) = self.stalled {
                if left == 0 {
                    self.stalled = None;
                } else if ids.len() > 1 && ids.contains(&task) {
                    ids.retain(|i| *i != task);
                    self.stalled = Some((task, left - 1));
                } else if !ids.contains(&task) {
                    self.stalled = Some((task, left - 1));
                } else {
                    // nobody else can run: the stalled write completes
                    self.stalled = None;
                }
            }
            // weak fairness
            let d = self.decisions;
            forced = ids.iter().copied().filter(|i| d - self.last_ran.get(i).copied().unwrap_or(d) > FAIR_AFTER).min_by_key(|i| self.last_ran[i]);
        }
        let choice = match &self.strategy {
            _ if forced.is_some() => forced.unwrap(),
            Strategy::Random => ids[self.rng.usize_below(ids.len())],
            Strategy::Sticky { stay } => match cur {
                Some(c) if ids.contains(&c) && self.rng.below(100) < *stay => c,
                _ => ids[self.rng.usize_below(ids.len())],
            },
            Strategy::Pct { .. } => {
                for id in &ids {
                    if !self.priorities.contains_key(id) {
                        let p = 1 + (self.rng.next_u64() >> 2) as i64;
                        self.priorities.insert(*id, p);
                    }
                }
                if ids.len() > 1 {
                    if self.change_points.contains(&self.step) {
                        if let Some(c) = cur {
                            self.lowest -= 1;
                            self.priorities.insert(c, self.lowest);
                        }
                    }
                    self.step += 1;
                }
                *ids.iter().max_by_key(|id| self.priorities[*id]).unwrap()
            }
            Strategy::Replay(list) => {
                let k = self.step;
                self.step += 1;
                match list.get(k) {
                    Some(want) if ids.contains(&(*want as usize)) => *want as usize,
                    Some(_) => {
                        self.shared.diverged.store(true, Ordering::SeqCst);
                        ids[0]
                    }
                    None => match cur {
                        Some(c) if ids.contains(&c) => c,
                        _ => ids[0],
                    },
                }
            }
        };
        self.last_ran.insert(choice, self.decisions);
        self.shared.choices.lock().unwrap().push(choice as u32);
        Some(TaskId::from(choice))
    }

    fn next_u64(&mut self) -> u64 {
        self.rng.next_u64()
    }
}
