//! C20 — compile once, render for any device: rendering is a pure function of (compiled
//! expression, path); two renderings differ in exactly one token, the string naming the device
//! in the scan call, which decodes to the path given; rendering never changes the compiled
//! expression or its destination table.
//!
//! Reference model of a handle: an immutable pair (template, table) fixed at compile time.

use crate::c15::subject_cfg;
use crate::gen::{self, ActionKind};
use crate::hist::{Obs, Op, Scenario, Table, FIXED_PATH};
use crate::histcheck::{Judgement, Tier, Violation};
use crate::rng::Rng;
use crate::seam::CLOCK_FLOOR;
use crate::sexp::{lex_spans, Tok};
use std::collections::BTreeMap;

const BENIGN: [&str; 5] = ["/dev/mapper/mdt0", "/", "/dev/sdb1", "/mnt/lustre-MDT0000", "mdt0"];
const AWKWARD: [&str; 24] = [
    "/dev/nul\u{0}char",
    "\u{feff}/dev/bom",
    "/dev/ls\u{2028}ps\u{2029}",
    "/dev/esc\u{1b}[0m",
    "/dev/cr\rlf",
    "/dev/ff\u{c}del\u{7f}",
    "/dev/rs\u{1e}us\u{1f}",
    "/dev/e\u{301}\u{301}combining",
    "/dev/my disk",
    "~user/%s;#(x)",
    "/dev/donn\u{e9}es/\u{b5}0",
    "",
    "/dev/tab\there",
    "/dev/nl\nx",
    "/dev/sim0 ",
    "(lipe-scan",
    ";comment",
    "#t",
    "|a|",
    "'quote",
    "/dev/\u{65e5}\u{672c}/\u{1F4BE}",
    "{mdt}",
    "~a~d{}",
    ")))",
];
const HOSTILE: [&str; 12] = [
    "/dev/a\"b",
    "trail\\",
    "\\",
    "\"",
    "a\\\"b",
    "/dev/\" (display \"pwned\") \"",
    "\\n",
    "x\\\\",
    "\\\"",
    "/dev/q\"",
    "\"\"",
    "C:\\dev\\mdt0",
];

#[derive(Clone, Copy, PartialEq, Debug)]
pub enum PathClass {
    Benign,
    Awkward,
    Hostile,
}

pub fn classify(path: &str) -> PathClass {
    if path.contains('"') || path.contains('\\') {
        PathClass::Hostile
    } else if !path.is_empty() && path.chars().all(|c| c.is_ascii_alphanumeric() || "/._-".contains(c)) {
        PathClass::Benign
    } else {
        PathClass::Awkward
    }
}

pub fn random_path(rng: &mut Rng, class: PathClass) -> String {
    match class {
        PathClass::Benign => {
            if rng.chance(1, 3) {
                format!("/dev/mapper/vg{}-mdt{}", rng.below(9), rng.below(64))
            } else {
                rng.pick(&BENIGN).to_string()
            }
        }
        PathClass::Awkward => {
            if rng.chance(1, 6) {
                return gen::placeholder(rng);
            }
            if rng.chance(1, 8) {
                let mut s = String::from("/");
                // a few KiB usually; now and then beyond 64 KiB
                let n = match rng.below(60) {
                    0 => 1 << 20, // 1 MiB
                    1..=4 => rng.range(65_530, 70_000),
                    _ => *rng.pick(&[255u64, 256, 1000, 4095, 4096, 4097]),
                };
                if rng.chance(1, 2) {
                    for i in 0..n {
                        s.push(if i % 17 == 16 { '/' } else { (b'a' + (i % 26) as u8) as char });
                    }
                } else {
                    // the same length in BYTES, made of characters of one to four bytes, with a
                    // random phase: multi-byte characters straddle every power-of-two offset
                    for _ in 0..rng.below(10) {
                        s.push('x');
                    }
                    let unit = ['a', '\u{e9}', '\u{65e5}', '\u{1F4BE}', 'b', '/', '\u{3b1}', 'c', '\u{4e2d}', '\u{301}'];
                    let mut k = rng.usize_below(unit.len());
                    while (s.len() as u64) + 4 <= n {
                        s.push(unit[k % unit.len()]);
                        k += 1;
                    }
                    while (s.len() as u64) < n {
                        s.push('z');
                    }
                }
                s
            } else if rng.chance(1, 8) {
                // characters a "sanitising" or "normalising" step would touch: Unicode blanks at the
                // edges (str::trim removes them), invisible and bidirectional controls, variation
                // selectors, tags, compatibility forms and case-sensitive letters anywhere
                let edge: Vec<char> = " \t\n\r\u{b}\u{c}\u{85}\u{a0}\u{1680}\u{2000}\u{2009}\u{200a}\u{2028}\u{2029}\u{202f}\u{205f}\u{3000}\u{feff}\u{200b}".chars().collect();
                let inner: Vec<char> = "\u{ad}\u{200b}\u{200c}\u{200d}\u{200e}\u{200f}\u{202a}\u{202c}\u{202e}\u{2060}\u{2066}\u{2069}\u{fe0f}\u{fe00}\u{fff9}\u{fffb}\u{fffc}\u{e0001}\u{e007f}\u{1d173}\u{34f}\u{61c}\u{180e}\u{212b}\u{c5}\u{41}\u{30a}\u{fb01}\u{1e9e}\u{df}\u{130}\u{131}\u{3a3}\u{3c2}\u{ff21}\u{2126}".chars().collect();
                let mut chars: Vec<char> = random_path(rng, PathClass::Benign).chars().collect();
                for _ in 0..rng.range(0, 3) {
                    let at = rng.usize_below(chars.len() + 1);
                    chars.insert(at, *rng.pick(&inner));
                }
                if rng.chance(2, 3) {
                    chars.insert(0, *rng.pick(&edge));
                }
                if rng.chance(2, 3) {
                    chars.push(*rng.pick(&edge));
                }
                if rng.chance(1, 5) {
                    chars.push(*rng.pick(&edge));
                }
                chars.into_iter().collect()
            } else if rng.chance(1, 4) {
                let alphabet: Vec<char> = " ~%;#()[]{}'|&$*?<>=!\t\r\u{0}\u{7f}\u{1b}\u{feff}\u{2028}\u{e9}\u{3b1}\u{4e2d}\u{1F4BE}\u{301}/abc012.-_".chars().collect();
                let n = rng.range(1, 24);
                (0..n).map(|_| *rng.pick(&alphabet)).collect()
            } else {
                rng.pick(&AWKWARD).to_string()
            }
        }
        PathClass::Hostile => match rng.below(4) {
            0 => rng.pick(&HOSTILE).to_string(),
            1 => {
                let alphabet: Vec<char> = "\"\\\"\\ab /n0;()".chars().collect();
                let n = rng.range(1, 16);
                let mut s: String = (0..n).map(|_| *rng.pick(&alphabet)).collect();
                if !s.contains('"') && !s.contains('\\') {
                    s.push(*rng.pick(&['"', '\\']));
                }
                s
            }
            _ => {
                // any benign or awkward path (non-ASCII, long, empty, ...) with 1-3 special
                // characters inserted at random character positions, incl. first and last
                let base = if rng.chance(1, 4) { random_path(rng, PathClass::Benign) } else { random_path(rng, PathClass::Awkward) };
                let mut chars: Vec<char> = base.chars().collect();
                for _ in 0..rng.range(1, 3) {
                    let at = match rng.below(4) {
                        0 => 0,
                        1 => chars.len(),
                        _ => rng.usize_below(chars.len() + 1),
                    };
                    let special = *rng.pick(&['"', '\\', '"', '\\']);
                    chars.insert(at, special);
                    if rng.chance(1, 4) {
                        // two special characters in a row
                        chars.insert(at, *rng.pick(&['"', '\\']));
                    }
                }
                chars.into_iter().collect()
            }
        },
    }
}

/// A long history on one compiled expression: one render per device of a large installation
/// (N just above a power of two, where a bounded cache would start to evict), then the early
/// devices again. Exercises state that needs many calls to build up.
fn many_devices_scenario(rng: &mut Rng, tier: Tier) -> Scenario {
    let mut cfg = subject_cfg(rng, tier);
    cfg.hostile_strings = false; // these programs are read back
    cfg.matchers = cfg.matchers.min(6);
    cfg.unsupported = 0;
    let subject = gen::expression(rng, &cfg);
    // one in twelve: an installation (or a long-lived service rendering per request) beyond any small
    // power of two, so that caches sized "generously" (2048, 4096, 16384 entries) start to evict
    let n = if rng.chance(1, 12) { *rng.pick(&[2049usize, 4097, 5000, 8193, 16385, 40000]) } else { *rng.pick(&[17usize, 33, 65, 129, 257, 257, 300, 513, 1025]) };
    let style = rng.below(4);
    // style 3: long device paths, 8-48 MiB of distinct path text through one handle (state bounded in
    // bytes rather than in entries)
    let long_unit = ((*rng.pick(&[8usize, 24, 48]) << 20) / n).clamp(300, 16 << 10);
    let mut paths = vec![FIXED_PATH.to_string()];
    for i in 0..n {
        paths.push(match style {
            0 => format!("/dev/mapper/lustre-MDT{i:04x}"),
            1 => format!("/dev/disk/by-label/fs{}:MDT{i:04}", i % 7),
            2 => format!("mdt{i}"),
            _ => {
                let mut p = format!("/dev/disk/by-path/pci-0000:{:02x}", i % 251);
                let seg = format!("/ip-10.{}.{}.{}:3260-iscsi-iqn.2026-10.example:mdt{i}", i % 250, (i / 250) % 250, i % 7);
                while p.len() + seg.len() < long_unit {
                    p.push_str(&seg);
                }
                format!("{p}-lun-{i}")
            }
        });
    }
    let mut ops = vec![Op::Compile { subj: 0, slot: 0, script: vec![], twice: false }];
    for i in 1..=n {
        ops.push(Op::Render { slot: 0, path: i });
        if rng.chance(1, 40) {
            ops.push(Op::IoMap { slot: 0 });
        }
        if rng.chance(1, 60) {
            ops.push(Op::SwitchThread { t: rng.usize_below(crate::hist::MAX_THREADS) });
        }
    }
    // come back to devices seen long ago, and to recent ones
    for _ in 0..rng.range(8, 40) + (n as u64) / 64 {
        let i = match rng.below(3) {
            0 => rng.range(1, 4) as usize,
            1 => n - rng.usize_below(4.min(n)),
            _ => 1 + rng.usize_below(n),
        };
        ops.push(Op::Render { slot: 0, path: i });
    }
    ops.push(Op::IoMap { slot: 0 });
    Scenario { subjects: vec![subject], paths, clock_start: CLOCK_FLOOR + rng.below(1 << 30), hash_seed: rng.next_u64(), ops }
}

/// Many compiled expressions that look alike (same length, same options), rendered for the same
/// few devices: state shared between different compiled expressions under a weak key would
/// hand one expression another one's program.
fn many_expressions_scenario(rng: &mut Rng) -> Scenario {
    let n = rng.range(8, 40) as usize;
    let kind = rng.below(3);
    let subjects: Vec<String> = (0..n)
        .map(|i| {
            let c = (b'a' + (i % 26) as u8) as char;
            let d = (b'a' + ((i / 26) % 26) as u8) as char;
            match kind {
                0 => format!("-name {c}{d} -print"),
                1 => format!("-name {c}{d}.log -fprint out.txt"),
                _ => format!("-size +{}c -name {c}{d} -print0", i % 10),
            }
        })
        .collect();
    let paths = vec![FIXED_PATH.to_string(), "/dev/mapper/mdt0".to_string(), "/dev/mapper/mdt1".to_string(), "mdt\"2".to_string()];
    let mut ops = vec![];
    for (i, _) in subjects.iter().enumerate() {
        ops.push(Op::Compile { subj: i, slot: i, script: vec![], twice: false });
    }
    for _ in 0..rng.range(30, 120) {
        let slot = rng.usize_below(n);
        ops.push(if rng.chance(1, 8) { Op::IoMap { slot } } else { Op::Render { slot, path: rng.usize_below(paths.len()) } });
    }
    Scenario { subjects, paths, clock_start: CLOCK_FLOOR + rng.below(1 << 30), hash_seed: rng.next_u64(), ops }
}

pub fn scenario(rng: &mut Rng, tier: Tier) -> Scenario {
    if rng.chance(1, 60) {
        return many_devices_scenario(rng, tier);
    }
    if rng.chance(1, 80) {
        return many_expressions_scenario(rng);
    }
    let n_subjects = rng.range(1, 3) as usize;
    let mut subjects = vec![];
    for i in 0..n_subjects {
        let mut cfg = subject_cfg(rng, tier);
    cfg.hostile_strings = false; // these programs are read back
        cfg.matchers = cfg.matchers.min(12);
        cfg.unsupported = 0;
        cfg.placeholder_strings = rng.chance(1, 2);
        if i == 0 && cfg.time_tests == 0 {
            cfg.time_tests = 1;
        }
        if i == 1 && !cfg.actions.iter().any(|a| matches!(a, ActionKind::Print0 | ActionKind::FPrint | ActionKind::FPrint0 | ActionKind::FPrintf | ActionKind::PrintfRaw)) {
            cfg.actions.push(ActionKind::FPrint);
        }
        subjects.push(if rng.chance(1, 80) {
            gen::report_expression(rng)
        } else if rng.chance(1, 150) {
            gen::giant_expression(rng)
        } else {
            gen::expression(rng, &cfg)
        });
    }
    // swarm: class mix per run; fault-free (no hostile) and hostile configurations both occur
    let mix = match rng.below(4) {
        0 => (1, 0, 0),
        1 => (2, 2, 0),
        2 => (1, 1, 2),
        _ => (1, 2, 1),
    };
    let n_paths = rng.range(2, 6) as usize;
    let mut paths = vec![FIXED_PATH.to_string()];
    while paths.len() < n_paths + 1 {
        let x = rng.below(mix.0 + mix.1 + mix.2);
        let class = if x < mix.0 {
            PathClass::Benign
        } else if x < mix.0 + mix.1 {
            PathClass::Awkward
        } else {
            PathClass::Hostile
        };
        let p = random_path(rng, class);
        if !paths.contains(&p) {
            paths.push(p);
        }
    }
    // spellings of one device (doubled and trailing separators, ./, /.): rendered on the same
    // expression they are still different path strings
    if rng.chance(1, 3) {
        let base = paths[1 + rng.usize_below(paths.len() - 1)].clone();
        if !base.is_empty() {
            // a separator inside the path (not the first one), if there is one
            let inner: Vec<usize> = base.char_indices().filter(|(i, c)| *c == '/' && *i > 0).map(|(i, _)| i).collect();
            let at_inner = |with: &str, rng: &mut Rng| -> String {
                match inner.is_empty() {
                    true => format!("{base}{with}"),
                    false => {
                        let i = inner[rng.usize_below(inner.len())];
                        format!("{}{}{}", &base[..i], with, &base[i + 1..])
                    }
                }
            };
            let alias = match rng.below(9) {
                0 => format!("{base}/"),
                1 => base.replacen('/', "//", 1),
                2 => format!("./{base}"),
                3 => format!("{base}/."),
                4 => at_inner("/./", rng),
                5 => at_inner("//", rng),
                6 => at_inner("/x/../", rng),
                7 => {
                    // one letter in the other case
                    let letters: Vec<usize> = base.char_indices().filter(|(_, c)| c.is_ascii_alphabetic()).map(|(i, _)| i).collect();
                    match letters.is_empty() {
                        true => base.to_uppercase(),
                        false => {
                            let i = letters[rng.usize_below(letters.len())];
                            let c = base[i..].chars().next().unwrap();
                            let flipped = if c.is_ascii_lowercase() { c.to_ascii_uppercase() } else { c.to_ascii_lowercase() };
                            format!("{}{}{}", &base[..i], flipped, &base[i + 1..])
                        }
                    }
                }
                _ => base.to_uppercase(),
            };
            if !paths.contains(&alias) {
                paths.push(alias);
            }
        }
    }
    // siblings: device names of one installation differ in ONE place — the controller in the
    // middle of a by-path name, the volume group inside a mapper name, the last digit — and are
    // otherwise equal, length included. A key that samples a path (length, head, tail, every
    // n-th byte) cannot tell them apart.
    if rng.chance(1, 3) {
        let base = match rng.below(5) {
            0 => "/dev/disk/by-path/pci-0000:3b:00.0-nvme-1-part1".to_string(),
            1 => "/dev/mapper/vg_scratch1-lv_scratch_mdt0".to_string(),
            2 => "/dev/disk/by-id/dm-uuid-mpath-3600a098000000000c0fb4b6daef0a9e4".to_string(),
            3 => format!("/dev/disk/by-path/pci-0000:{:02x}:00.0-fc-0x5000{:08x}-lun-0", rng.below(256), rng.below(1 << 32)),
            _ => {
                let p = paths[1 + rng.usize_below(paths.len() - 1)].clone();
                if p.chars().count() >= 8 { p } else { format!("/dev/mapper/{p}-lustre-mdt-volume-000") }
            }
        };
        let chars: Vec<char> = base.chars().collect();
        if !paths.contains(&base) {
            paths.push(base.clone());
        }
        for _ in 0..rng.range(1, 3) {
            let at = match rng.below(4) {
                0 => rng.usize_below(chars.len().min(4)),
                1 => chars.len() - 1 - rng.usize_below(chars.len().min(4)),
                _ => chars.len() / 3 + rng.usize_below(chars.len() / 3 + 1),
            }
            .min(chars.len() - 1);
            let mut v = chars.clone();
            let alphabet: Vec<char> = "0123456789abcdefxyzABC_".chars().collect();
            let mut c = *rng.pick(&alphabet);
            if c == v[at] {
                c = if c == '7' { '8' } else { '7' };
            }
            v[at] = c;
            let sibling: String = v.into_iter().collect();
            if !paths.contains(&sibling) {
                paths.push(sibling);
            }
        }
    }
    // twins: two device names of equal length that collide under the commonest family of hand-written
    // string hashes, `acc * b + byte` with a small multiplier (31 and 33 of Java and K&R, 37, 101,
    // 127, 131, 137): "Aa"/"BB" folklore, computed for each base. A memo keyed by such a digest
    // answers the second with the program of the first.
    if rng.chance(1, 4) {
        const TWINS: [(&str, &str); 21] = [
            ("0O", "10"), ("0P", "11"), ("Aa", "BB"), ("0Q", "10"), ("0R", "11"), ("0S", "12"), ("0U", "10"), ("0V", "11"), ("0W", "12"),
            ("1l0", "0Е"), ("1l1", "0Ж"), ("1l2", "0З"), ("1E0", "0ï"), ("1E1", "0ð"), ("1E2", "0ñ"), ("1A0", "0ó"), ("1A1", "0ô"), ("1A2", "0õ"),
            ("1H0", "0й"), ("1H1", "0к"), ("1H2", "0л"),
        ];
        let (u, v) = *rng.pick(&TWINS);
        let (head, tail) = *rng.pick(&[("/dev/mapper/vg", "-mdt0"), ("/srv/lustre/", "/mdt0.img"), ("mdt", ""), ("/dev/disk/by-label/fs:", "")]);
        for t in [u, v] {
            let p = format!("{head}{t}{tail}");
            if !paths.contains(&p) {
                paths.push(p);
            }
        }
    }
    let n_slots = rng.range(1, 3) as usize;
    let mut ops = vec![];
    // every slot is filled early so that renders have something to work on
    for slot in 0..n_slots {
        // half of the handles are not looked at when they are created: their first render, or
        // their first table query, comes from a later operation
        if rng.chance(1, 2) {
            ops.push(Op::CompileQuiet { subj: rng.usize_below(n_subjects), slot });
        } else {
            ops.push(Op::Compile { subj: rng.usize_below(n_subjects), slot, script: vec![], twice: false });
        }
    }
    let w_render = rng.range(4, 10);
    let w_iomap = rng.range(1, 4);
    let w_compile = rng.range(0, 2);
    let w_unrelated = rng.range(0, 2);
    let w_thread = rng.range(0, 3);
    let w_epoch = rng.range(0, 2);
    let w_clock = rng.range(0, 3);
    let w_logger = rng.range(0, 1);
    let total = w_render + w_iomap + w_compile + w_unrelated + w_thread + w_epoch + w_clock + w_logger;
    let n_ops = rng.range(5, 40) as usize;
    for _ in 0..n_ops {
        let mut x = rng.below(total);
        let mut take = |w: u64| {
            if x < w {
                true
            } else {
                x -= w;
                false
            }
        };
        let op = if take(w_render) {
            Op::Render { slot: rng.usize_below(n_slots), path: rng.usize_below(paths.len()) }
        } else if take(w_iomap) {
            Op::IoMap { slot: rng.usize_below(n_slots) }
        } else if take(w_compile) {
            Op::Compile { subj: rng.usize_below(n_subjects), slot: rng.usize_below(n_slots), script: vec![0, 1, 1], twice: false }
        } else if take(w_unrelated) {
            let mut cfg = subject_cfg(rng, Tier::Quick);
    cfg.hostile_strings = false; // these programs are read back
            cfg.placeholder_strings = rng.chance(1, 2);
            Op::Unrelated { texts: vec![gen::expression(rng, &cfg)], script: vec![] }
        } else if take(w_thread) {
            Op::SwitchThread { t: rng.usize_below(crate::hist::MAX_THREADS) }
        } else if take(w_epoch) {
            Op::NewEpoch
        } else if take(w_clock) {
            Op::ClockShift { delta: *rng.pick(&[1i64, 3600, 86_400, 1 << 33, -1, -86_400]) }
        } else if rng.chance(1, 2) {
            Op::EnvChange
        } else {
            Op::LoggerLevel { level: rng.below(5) as u8 }
        };
        ops.push(op);
    }
    Scenario { subjects, paths, clock_start: CLOCK_FLOOR + rng.below(1 << 30), hash_seed: rng.next_u64(), ops }
}

/// Tokens of one rendering; the program must tokenise and have balanced parentheses.
fn tokens_of(text: &str) -> Result<(Vec<Tok>, Vec<(usize, usize)>), String> {
    let spanned = lex_spans(text).map_err(|e| format!("the program does not tokenise: {e}"))?;
    let spans: Vec<(usize, usize)> = spanned.iter().map(|(_, a, b)| (*a, *b)).collect();
    let tokens: Vec<Tok> = spanned.into_iter().map(|(t, _, _)| t).collect();
    let mut depth = 0i64;
    for t in &tokens {
        match t {
            Tok::Open => depth += 1,
            Tok::Close => {
                depth -= 1;
                if depth < 0 {
                    return Err("the program has an unmatched closing parenthesis".into());
                }
            }
            _ => {}
        }
    }
    if depth != 0 {
        return Err("the program has unclosed parentheses".into());
    }
    Ok((tokens, spans))
}

/// Where a single rendering names its device, judged by position alone (used when a handle was
/// only ever rendered for one path, so that no second rendering can point at the place): the
/// first argument of the one `(lipe-scan ...)` call if it is a string literal, or the string a
/// `let`/`let*` binds to the symbol found there.
fn device_by_position(tokens: &[Tok]) -> Option<usize> {
    let scans: Vec<usize> = tokens
        .iter()
        .enumerate()
        .filter(|(i, t)| matches!(t, Tok::Sym(s) if s == "lipe-scan") && *i > 0 && tokens[*i - 1] == Tok::Open)
        .map(|(i, _)| i)
        .collect();
    if scans.len() != 1 {
        return None;
    }
    match tokens.get(scans[0] + 1) {
        Some(Tok::Str(_)) => Some(scans[0] + 1),
        Some(Tok::Sym(var)) => {
            // ( var "..." ) somewhere before the call
            (2..scans[0]).find(|&k| tokens[k - 2] == Tok::Open && tokens[k - 1] == Tok::Sym(var.clone()) && matches!(tokens[k], Tok::Str(_)) && tokens.get(k + 1) == Some(&Tok::Close))
        }
        _ => None,
    }
}

fn show(path: &str) -> String {
    if path.len() > 80 {
        let mut cut = 80;
        while !path.is_char_boundary(cut) {
            cut -= 1;
        }
        format!("{:?}... ({} bytes)", &path[..cut], path.len())
    } else {
        format!("{path:?}")
    }
}

struct Handle {
    compile_op: usize,
    /// destination table as first observed (at compile time, or at the first io_map())
    table: Option<Table>,
    /// first render per path index: (op, text)
    renders: BTreeMap<usize, (usize, String)>,
    /// tokens of the first rendering: (op, path index, tokens)
    reference: Option<(usize, usize, Vec<Tok>)>,
    /// text and token spans of the first rendering (for the byte-level comparison)
    reference_text: Option<(String, Vec<(usize, usize)>)>,
    /// index of the device string, once a rendering for a second path has pointed at it
    device_index: Option<usize>,
}

pub fn judge(sc: &Scenario, obs: &[(usize, Obs)]) -> Judgement {
    let mut j = Judgement::default();
    let mut handles: BTreeMap<usize, Handle> = BTreeMap::new();
    let mut retired: Vec<Handle> = vec![];
    let mut classes_seen = [false; 3];
    let mut distinct_paths_rendered: BTreeMap<usize, std::collections::BTreeSet<usize>> = BTreeMap::new();

    macro_rules! fail {
        ($class:expr, $ops:expr, $($fmt:tt)*) => {{
            j.violation = Some(Violation { class: $class.to_string(), detail: format!($($fmt)*), ops: $ops });
            return j;
        }};
    }

    for (i, o) in obs {
        // a render is either an explicit Render op or the FIXED_PATH render taken at compile time
        let render: Option<(usize, usize, &String)> = match o {
            Obs::Compiled { slot, text: Ok(t), table, .. } => {
                if let Some(old) = handles.insert(*slot, Handle { compile_op: *i, table: Some(table.clone()), renders: BTreeMap::new(), reference: None, reference_text: None, device_index: None }) {
                    retired.push(old);
                }
                distinct_paths_rendered.remove(slot);
                Some((*slot, 0, t))
            }
            Obs::CompiledQuiet { slot, ok: true, .. } => {
                if let Some(old) = handles.insert(*slot, Handle { compile_op: *i, table: None, renders: BTreeMap::new(), reference: None, reference_text: None, device_index: None }) {
                    retired.push(old);
                }
                distinct_paths_rendered.remove(slot);
                j.bump("handles_first_touched_by_a_later_operation", 1);
                None
            }
            Obs::Rendered { slot, path, text, clock_reads } => {
                if *clock_reads > 0 {
                    j.bump("renders_that_read_the_clock", 1);
                }
                Some((*slot, *path, text))
            }
            Obs::IoMapped { slot, table } => {
                j.bump("table_queries", 1);
                if let Some(h) = handles.get_mut(slot) {
                    match &h.table {
                        None => h.table = Some(table.clone()),
                        Some(first) => {
                            if first != table {
                                fail!(
                                    "table-changed",
                                    vec![h.compile_op, *i],
                                    "slot {slot}: destination table at op {i} differs from the one first observed for the handle compiled at op {}: {:?} vs {:?}",
                                    h.compile_op,
                                    table,
                                    first
                                );
                            }
                        }
                    }
                }
                None
            }
            Obs::Panicked { what, subj_or_slot, message } if *what == "render" || *what == "io_map" => {
                fail!("render-panicked", vec![*i], "{what} on slot {subj_or_slot} panicked at op {i}: {message}");
            }
            _ => None,
        };
        let Some((slot, path_idx, text)) = render else { continue };
        let Some(path) = sc.paths.get(path_idx) else { continue };
        let Some(h) = handles.get_mut(&slot) else { continue };
        j.bump("renders", 1);
        let class = classify(path);
        classes_seen[class as usize] = true;
        j.bump(
            match class {
                PathClass::Benign => "renders_benign_path",
                PathClass::Awkward => "renders_awkward_path",
                PathClass::Hostile => "renders_hostile_path",
            },
            1,
        );
        // P1 repeatability
        match h.renders.get(&path_idx) {
            Some((op0, t0)) => {
                j.bump("repeat_renders_compared", 1);
                if t0 != text {
                    fail!(
                        "render-not-repeatable",
                        vec![h.compile_op, *op0, *i],
                        "slot {slot}: rendering for {} at op {i} differs from the rendering for the same path at op {op0}",
                        show(path)
                    );
                }
                continue; // identical text: everything else was checked on the first one
            }
            None => {
                h.renders.insert(path_idx, (*i, text.clone()));
            }
        }
        // the program still reads as a program
        let (tokens, spans) = match tokens_of(text) {
            Ok(t) => t,
            Err(why) => {
                fail!("device-path-breaks-program", vec![h.compile_op, *i], "slot {slot}: rendering for {} at op {i}: {why}", show(path));
            }
        };
        // P2 single point of variation, P3 decoding
        match &h.reference {
            None => {
                h.reference = Some((*i, path_idx, tokens));
                h.reference_text = Some((text.clone(), spans));
            }
            Some((op0, p0, toks0)) => {
                j.bump("path_pairs_compared", 1);
                let path0 = &sc.paths[*p0];
                if toks0.len() != tokens.len() {
                    let at = toks0.iter().zip(tokens.iter()).position(|(a, b)| a != b).unwrap_or(toks0.len().min(tokens.len()));
                    fail!(
                        "renderings-differ-beyond-device-path",
                        vec![h.compile_op, *op0, *i],
                        "slot {slot}: renderings for {} (op {op0}) and {} (op {i}) have {} and {} tokens; first difference at token {at}: {:?} vs {:?}",
                        show(path0),
                        show(path),
                        toks0.len(),
                        tokens.len(),
                        toks0.get(at),
                        tokens.get(at)
                    );
                }
                let diff: Vec<usize> = (0..tokens.len()).filter(|&k| toks0[k] != tokens[k]).collect();
                if path0 == path {
                    // two path indices with equal text: must be the same program
                    if !diff.is_empty() {
                        fail!("render-not-repeatable", vec![h.compile_op, *op0, *i], "slot {slot}: two renderings for {} differ at token {}", show(path), diff[0]);
                    }
                    continue;
                }
                let expected = h.device_index;
                match diff.as_slice() {
                    [] => {
                        fail!(
                            "device-path-decodes-differently",
                            vec![h.compile_op, *op0, *i],
                            "slot {slot}: renderings for two different paths {} (op {op0}) and {} (op {i}) are the same program",
                            show(path0),
                            show(path)
                        );
                    }
                    [d] => {
                        let (a, b) = (&toks0[*d], &tokens[*d]);
                        match (a, b) {
                            (Tok::Str(sa), Tok::Str(sb)) => {
                                if sa != path0 || sb != path {
                                    let (shown_path, got) = if sb != path { (path, sb) } else { (path0, sa) };
                                    fail!(
                                        "device-path-decodes-differently",
                                        vec![h.compile_op, *op0, *i],
                                        "slot {slot}: the one string that differs between the renderings decodes to {} where the path given was {}",
                                        show(got),
                                        show(shown_path)
                                    );
                                }
                            }
                            _ => {
                                fail!(
                                    "renderings-differ-beyond-device-path",
                                    vec![h.compile_op, *op0, *i],
                                    "slot {slot}: renderings for {} and {} differ at token {d}, which is not a string literal in both: {:?} vs {:?}",
                                    show(path0),
                                    show(path),
                                    a,
                                    b
                                );
                            }
                        }
                        if let Some(e) = expected {
                            if e != *d {
                                fail!(
                                    "renderings-differ-beyond-device-path",
                                    vec![h.compile_op, *op0, *i],
                                    "slot {slot}: the device string moved: token {e} in earlier renderings, token {d} in the rendering for {} at op {i}",
                                    show(path)
                                );
                            }
                        }
                        h.device_index = Some(*d);
                        // "exactly one place" at byte level too: everything before and after the
                        // device literal (layout, comments, line breaks) is the same text
                        if let Some((text0, spans0)) = &h.reference_text {
                            let (a0, b0) = spans0[*d];
                            let (a1, b1) = spans[*d];
                            if text0[..a0] != text[..a1] || text0[b0..] != text[b1..] {
                                fail!(
                                    "renderings-differ-beyond-device-path",
                                    vec![h.compile_op, *op0, *i],
                                    "slot {slot}: renderings for {} (op {op0}) and {} (op {i}) have the same tokens but differ in layout or comments outside the device string",
                                    show(path0),
                                    show(path)
                                );
                            }
                        }
                    }
                    more => {
                        fail!(
                            "renderings-differ-beyond-device-path",
                            vec![h.compile_op, *op0, *i],
                            "slot {slot}: renderings for {} (op {op0}) and {} (op {i}) differ in {} places (tokens {:?}): e.g. {:?} vs {:?}",
                            show(path0),
                            show(path),
                            more.len(),
                            &more[..more.len().min(4)],
                            toks0[more[more.len() - 1]],
                            tokens[more[more.len() - 1]]
                        );
                    }
                }
            }
        }
        distinct_paths_rendered.entry(slot).or_default().insert(path_idx);
    }
    // handles that were only ever rendered for one path: judge the device string by position
    for h in handles.values().chain(retired.iter()) {
        if h.device_index.is_some() {
            continue;
        }
        let Some((op0, p0, toks0)) = &h.reference else { continue };
        let path0 = &sc.paths[*p0];
        j.bump("single_path_handles_judged_by_position", 1);
        let decoded: Option<&String> = device_by_position(toks0).and_then(|d| match &toks0[d] {
            Tok::Str(s) => Some(s),
            _ => None,
        });
        match decoded {
            Some(s) if s == path0 => {}
            Some(s) => {
                fail!(
                    "device-path-decodes-differently",
                    vec![h.compile_op, *op0],
                    "rendering for {} at op {op0}: the device string of the scan call decodes to {}",
                    show(path0),
                    show(s)
                );
            }
            None => {
                // unknown program shape: accept if the path appears as some string literal
                if !toks0.iter().any(|t| matches!(t, Tok::Str(s) if s == path0)) {
                    fail!(
                        "device-path-decodes-differently",
                        vec![h.compile_op, *op0],
                        "rendering for {} at op {op0}: no string literal of the program decodes to the path",
                        show(path0)
                    );
                }
            }
        }
    }
    // non-trivial: some handle was rendered for >= 2 distinct paths or rendered twice for one path
    let repeats = j.counters.get("repeat_renders_compared").copied().unwrap_or(0);
    if distinct_paths_rendered.values().any(|s| s.len() >= 2) || repeats > 0 {
        j.nontrivial = true;
    }
    if classes_seen[PathClass::Hostile as usize] {
        j.bump("runs_with_hostile_paths", 1);
    } else {
        j.bump("runs_without_hostile_paths", 1);
    }
    j
}

pub static PROP: crate::histcheck::HistProp = crate::histcheck::HistProp {
    id: "C20",
    scenario,
    judge,
    rule: "One case = one seeded call history (5-40 operations after 1-3 compiles; one in 60 renders 17-1025 (one in 720: 2049-40000) distinct devices on one expression and revisits early and late ones; one in 80 uses 8-40 look-alike expressions: scheme(path) for 2-6 device paths drawn from benign, awkward (spaces, ~ % ; # parens, non-ASCII incl. combining marks, NUL, DEL, ESC, BOM, U+2028, newline, empty, 255 bytes to 1 MiB, placeholder look-alikes, aliases of another path) and hostile (quotes and backslashes anywhere, also next to multi-byte characters) strings, io_map(), further compiles into the same slots, unrelated compilations, caller-thread switches, hash-key epochs, clock jumps, logger flips, environment changes) against the real library, checked against the model handle = immutable (template, table): same path => identical bytes; different paths => identical tokens except one string token that decodes to the path, and identical bytes outside that token. Non-trivial = some handle was rendered for >= 2 distinct paths or twice for one path. distinct_nontrivial counts distinct history shapes (operation kinds with slots and path indices) among non-trivial runs. Two further passes (coverage.concurrent_pass) run overlapping calls under controlled schedulers.",
    assumptions: &[
        "the program is read with Guile's string syntax: only backslash and double quote are special inside a string literal; escapes \\\\ \\\" \\n \\t \\a \\b \\f \\r \\v \\0 \\xHH are known, any other escape is an error",
        "caller threads are simulated at call granularity (no two calls overlap); the library has no synchronisation primitive a finer schedule could exercise",
        "paths are valid Rust strings without NUL",
    ],
    quick_runs: 30_000,
    thorough_runs: 1_000_000,
    block: 500,
    cross_process: false,
};
