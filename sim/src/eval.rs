//! Stub Guile/LiPE runtime: evaluates an emitted policy program, sequentially (reference run)
//! or on scanner threads whose interleaving the simulator's scheduler decides (shuttle).
//!
//! Stated assumptions about the real runtime (the trusted base of C16):
//!  A1 `make-mutex` gives a non-recursive mutex; relocking by the owner is an error.
//!  A2 `with-mutex` releases on normal and non-local exit.
//!  A3 `display` appends to the port in one or more atomic chunk writes and takes no lock.
//!  A4 `(make-printer port mutex term)` = `(lambda (s) (with-mutex mutex (display s port)
//!     (when term (display term port))))` — two displays, the mutex keeps the record whole.
//!  A5 `lipe-scan` runs the thunk once per file on T scanner threads, one file entirely on one
//!     thread; `lipe-scan-break` stops new files from being started, running ones complete.
//!  A6 two ports opened on one file name write to one destination.
//! The tests of `(lipe find)` only need to be deterministic functions of the file record: the
//! oracle compares a concurrent run with the sequential run of the same program.

use crate::sexp::Sexp;
use std::sync::atomic::{AtomicBool, AtomicU64, AtomicUsize, Ordering};
use std::sync::{Arc, Mutex as StdMutex};

#[derive(Clone, Debug)]
pub enum Val {
    Unspec,
    Bool(bool),
    Int(i128),
    Real(f64),
    Str(Arc<str>),
    Char(char),
    List(Arc<Vec<Val>>),
    Port(usize),
    Mutex(usize),
    Tm(i128),
    Closure(Arc<Closure>),
    Builtin(&'static str),
    Printer { port: usize, mutex: usize, term: Option<char> },
    /// mutable table shared by reference (every operation on it is a scheduling point)
    Table(Arc<TableCell>),
    /// mutable vector shared by reference (every access is a scheduling point)
    Vector(Arc<StdMutex<Vec<Val>>>),
    /// quoted symbol
    Sym(Arc<str>),
    /// a pair whose cdr is not a list; mutable with set-car!/set-cdr! (lists proper are immutable in the stub)
    Pair(Arc<PairCell>),
    /// (ice-9 atomic) box
    Box(Arc<StdMutex<Val>>),
    /// what `(stat name)` returns (the name's hash; field accessors derive values from it)
    Stat(u64),
    /// `(values a b ...)` on its way to `call-with-values` / `receive` / `let-values`
    Values(Arc<Vec<Val>>),
    /// condition variable
    CondVar(Arc<CvCell>),
    /// a thread created by the program with call-with-new-thread (its result, once joined)
    Thread(Arc<ThreadCell>),
}

/// Error of a plain sequential evaluation that met a construct which needs more than one thread (a
/// wait on a condition variable, a thread created by the program): the reference run is then
/// repeated under the controlled scheduler with one scanner thread.
pub const NEEDS_THREADS: &str = "this program creates threads or waits on a condition variable: it cannot be evaluated without a scheduler";

/// A condition variable: the tickets of the threads waiting and of those woken, under the
/// controlled scheduler's mutex + condvar. `signal` wakes exactly ONE waiter (which one is a
/// function of the workload), `broadcast` all of them; a signal with nobody waiting is lost, as in
/// reality. (No spurious wake-ups are injected: a program has to tolerate them but may not rely
/// on them — a `signal` where a `broadcast` was needed leaves a waiter asleep for ever.)
pub struct CvCell {
    sh: Option<(shuttle::sync::Mutex<CvState>, shuttle::sync::Condvar)>,
}

#[derive(Default)]
pub struct CvState {
    next: u64,
    waiting: Vec<u64>,
    woken: Vec<u64>,
    signals: u64,
}
impl std::fmt::Debug for CvCell {
    fn fmt(&self, f: &mut std::fmt::Formatter<'_>) -> std::fmt::Result {
        write!(f, "#<condition-variable>")
    }
}

pub struct ThreadCell {
    handle: StdMutex<Option<shuttle::thread::JoinHandle<Result<Val, EvalErr>>>>,
    id: usize,
}
impl std::fmt::Debug for ThreadCell {
    fn fmt(&self, f: &mut std::fmt::Formatter<'_>) -> std::fmt::Result {
        write!(f, "#<thread {}>", self.id)
    }
}

#[derive(Debug, Default)]
pub struct TableCell {
    entries: StdMutex<Vec<(Val, Val)>>,
    /// a resize is in progress: the new, empty bucket vector is installed and the entries have
    /// not been moved across yet
    rehashing: AtomicBool,
}

/// Entry counts at which Guile's hash tables grow (sizes 31, 61, 113, 223, ...; a table is
/// resized when it holds more than nine tenths of its size).
const RESIZE_AT: [usize; 10] = [28, 55, 102, 201, 399, 795, 1584, 3162, 6320, 12632];

#[derive(Debug)]
pub struct PairCell {
    car: StdMutex<Val>,
    cdr: StdMutex<Val>,
    /// assigned with set-car!/set-cdr! at least once: accesses become scheduling points
    mutated: AtomicBool,
}

fn pair(a: Val, b: Val) -> Val {
    Val::Pair(Arc::new(PairCell { car: StdMutex::new(a), cdr: StdMutex::new(b), mutated: AtomicBool::new(false) }))
}

#[derive(Debug)]
pub struct Closure {
    /// name of the parameter that takes the remaining arguments as a list: `(lambda (a . rest) ..)`, `(lambda args ..)`
    rest: Option<String>,
    params: Vec<String>,
    body: Vec<Sexp>,
    env: Env,
}

pub type Env = Option<Arc<Frame>>;

#[derive(Debug)]
pub struct Frame {
    name: String,
    val: StdMutex<Val>,
    /// assigned with set! at least once: reads and writes of it become scheduling points
    mutated: AtomicBool,
    next: Env,
}

fn bind(env: &Env, name: &str, val: Val) -> Env {
    Some(Arc::new(Frame { name: name.to_string(), val: StdMutex::new(val), mutated: AtomicBool::new(false), next: env.clone() }))
}

fn find_frame<'a>(env: &'a Env, name: &str) -> Option<&'a Arc<Frame>> {
    let mut cur = env;
    while let Some(f) = cur {
        if f.name == name {
            return Some(f);
        }
        cur = &f.next;
    }
    None
}

fn lookup(env: &Env, name: &str) -> Option<Val> {
    find_frame(env, name).map(|f| f.val.lock().unwrap().clone())
}

#[derive(Clone, Debug, PartialEq)]
pub enum EvalErr {
    /// the stub does not know this construct: a harness limitation, never a verdict
    Unsupported(String),
    /// the program did something the real runtime would raise an error for
    Runtime(String),
    /// `(throw key args ...)` / `(error ...)` not (yet) caught
    Thrown(String, Thrown),
    /// not an error: a call in tail position, on its way back to the `apply` of the enclosing
    /// procedure, which performs it in a loop (loops written as tail recursion do not nest)
    TailCall(Thrown),
}

/// arguments of a throw (compared by nothing: two throws to one key are the same error)
#[derive(Clone, Debug)]
pub struct Thrown(pub Vec<Val>);
impl PartialEq for Thrown {
    fn eq(&self, _: &Thrown) -> bool {
        true
    }
}

impl EvalErr {
    /// an uncaught throw is an error of the policy like any other
    pub fn settle(self) -> EvalErr {
        match self {
            EvalErr::Thrown(k, a) => EvalErr::Runtime(format!("uncaught throw to {k}: {:?}", a.0)),
            EvalErr::TailCall(_) => EvalErr::Runtime("internal: tail call escaped its procedure".into()),
            other => other,
        }
    }
}

type R<T = Val> = Result<T, EvalErr>;

fn unsupported<T>(s: impl Into<String>) -> R<T> {
    Err(EvalErr::Unsupported(s.into()))
}
fn runtime<T>(s: impl Into<String>) -> R<T> {
    Err(EvalErr::Runtime(s.into()))
}

#[derive(Clone, Debug)]
pub struct FileRec {
    pub name: String,
    pub rel_path: String,
    pub abs_path: String,
    pub mode: u32,
    pub size: u64,
    pub uid: u32,
    pub gid: u32,
    pub ino: u64,
    pub nlink: u64,
    pub atime: i64,
    pub ctime: i64,
    pub mtime: i64,
    pub blocks: u64,
    pub projid: u32,
    pub stripe_count: u32,
    pub stripe_size: u32,
    pub mirror_count: u32,
    pub pools: Vec<String>,
    pub xattrs: Vec<(String, String)>,
    pub empty: bool,
    pub executable: bool,
    pub readable: bool,
    pub writable: bool,
}

#[derive(Clone, Debug, PartialEq)]
pub enum Ev {
    OpenPort { port: usize, dest: String },
    ClosePort { port: usize },
    NewMutex { mutex: usize },
    FileStart { thread: usize, file: usize },
    FileEnd { thread: usize, file: usize },
    Lock { thread: usize, mutex: usize },
    Unlock { thread: usize, mutex: usize },
    /// one atomic chunk appended to a port; `call` identifies the make-printer invocation (0 =
    /// not inside one)
    Write { thread: usize, file: usize, port: usize, chars: String, call: u64 },
    /// an unsynchronised access to a port's state (display chunk, flush, close) by this thread
    PortOp { thread: usize, port: usize },
    /// a stub-owned printer (make-printer) was invoked with this string
    PrinterCall { thread: usize, file: usize, call: u64, port: usize, text: String, term: Option<char> },
    /// runtime printing outside emitted printers (print-relative-path, print-file-fid)
    RuntimePrint { thread: usize, file: usize },
    Break { thread: usize, file: usize },
    Error { thread: usize, file: usize, error: EvalErr },
}

pub const NO_FILE: usize = usize::MAX;
pub const MAIN_THREAD: usize = 0;

struct MutexCell {
    /// (locked flag, condition) under the controlled scheduler; None in sequential runs
    sh: Option<(shuttle::sync::Mutex<bool>, shuttle::sync::Condvar)>,
    /// 0 = free, else thread + 1
    owner: AtomicUsize,
    recursive: bool,
    depth: AtomicUsize,
}

#[derive(Clone)]
pub struct Knobs {
    /// scanner threads
    pub threads: usize,
    /// files evaluated by scanner thread t (in order)
    pub partition: Vec<Vec<usize>>,
    /// a display of n chars is split into up to this many chunk writes
    pub max_chunks: usize,
    /// decides the split points; a function of (file, write ordinal of that file) only, so that
    /// it does not depend on the schedule
    pub chunk_seed: u64,
    /// honour lipe-scan-break (off in the reference run, which wants every file's records)
    pub honour_break: bool,
    /// files are not pre-assigned: every scanner thread takes the next unscanned file when it is
    /// free (which thread scans which file is then up to the schedule)
    pub dynamic_assignment: bool,
    /// None: a display reaches the destination at once (unbuffered / line-buffered port).
    /// Some(cap): ports are block-buffered with this capacity (in characters), as Guile's are
    /// on pipes and files: a display is an unsynchronised read-modify-write of the port's
    /// buffer; the buffer reaches the destination when it is full, on force-output, on
    /// close-port and at the end of the program.
    pub buffer_cap: Option<usize>,
    /// a write of at least 1024 characters may block for up to this many scheduler decisions
    /// (a full pipe, a slow consumer) before each of its chunks reaches the port
    pub stall_large_writes: Option<usize>,
    /// a flush resets the buffer cursor before (true) or after (false) it hands the data over
    pub flush_resets_first: bool,
    /// buckets of every hash table (1: any two keys share a chain, which is also what a resize
    /// does to every insertion that overlaps it)
    pub table_buckets: usize,
}

pub struct Runtime {
    pub concurrent: bool,
    pub files: Vec<FileRec>,
    pub knobs: Knobs,
    ports: StdMutex<Vec<PortSt>>,
    mutexes: StdMutex<Vec<Arc<MutexCell>>>,
    pub log: StdMutex<Vec<Ev>>,
    stop: AtomicBool,
    calls: AtomicU64,
    /// lock attempts that found the mutex held by another thread (a switch happened inside a record)
    pub contended: AtomicU64,
    /// next file to hand out under dynamic assignment
    next_file: AtomicUsize,
    /// names that are the target of a set! somewhere in the program: their reads can race
    assigned: StdMutex<std::collections::BTreeSet<String>>,
    /// channel to the scheduler (stall requests)
    pub sched: StdMutex<Option<Arc<crate::sched::Shared>>>,
    default_out: StdMutex<Option<usize>>,
    default_err: StdMutex<Option<usize>>,
}

/// One buffered character with its provenance: (char, file, printer call, writing thread).
type BufChar = (char, usize, u64, usize);

pub struct PortSt {
    dest: String,
    open: bool,
    buf: Vec<BufChar>,
    cursor: usize,
    /// which buffer object is installed: `setvbuf` installs a fresh one, and a display that
    /// fetched the old one stores its characters into an object nobody will flush
    generation: u64,
    /// string port (call-with-output-string): characters are collected here, not delivered
    capture: Option<String>,
}

pub struct Ctx {
    pub thread: usize,
    pub file: usize,
    /// ordinal of the next display of the current file (chunking decisions)
    writes_of_file: u64,
    /// make-printer invocation in progress
    call: u64,
    depth: usize,
    /// the form about to be evaluated is in tail position of the procedure body being applied
    tail: bool,
}

impl Ctx {
    pub fn new(thread: usize) -> Ctx {
        Ctx { thread, file: NO_FILE, writes_of_file: 0, call: 0, depth: 0, tail: false }
    }
}

const ACCESSORS: &[&str] = &[
    "mode", "size", "uid", "gid", "ino", "nlink", "atime", "ctime", "mtime", "blocks", "type", "projid", "file-fid",
    "relative-path", "absolute-path", "name", "user", "group", "lov-stripe-count", "lov-stripe-size", "lov-mirror-count",
    "lov-pools", "empty", "executable", "readable", "writable", "lipe-scan-client-mount-path",
    "lipe-getopt-client-mount-path", "lipe-getopt-required-attrs", "lipe-getopt-thread-count", "print-relative-path",
    "print-file-fid",
];

const PROCEDURES: &[&str] = &[
    "=", "<", ">", "<=", ">=", "-", "+", "*", "/", "quotient", "logand", "member", "equal?", "string", "format", "display",
    "make-mutex", "current-output-port", "current-error-port", "current-warning-port", "open-file", "close-port", "dynamic-wind", "xattr?", "xattr-ref-string",
    "xattr-match?", "call-with-name", "call-with-relative-path", "round-up-power-of-2", "streq?", "streq-ci?", "fnmatch?",
    "fnmatch-ci?", "type->char", "strftime", "localtime", "dirname", "lipe-scan-break", "make-printer", "lipe-scan", "not",
    "newline", "string-append", "number->string", "make-recursive-mutex", "lock-mutex", "unlock-mutex", "list", "cons",
    "car", "cdr", "null?", "reverse", "append", "length", "for-each", "eq?", "eqv?", "string=?", "string-null?",
    "string-length", "zero?", "1+", "1-", "force-output", "flush-all-ports", "string?", "apply", "string-join", "make-hash-table", "hash-set!", "hash-ref", "hash-remove!", "hash-count",
    "hashq-set!", "hashq-ref", "hashq-remove!", "hashv-set!", "hashv-ref", "hashv-remove!", "hash-clear!", "hash-map->list", "hash-for-each", "hash-fold",
    "write", "write-char", "write-string", "put-string", "put-char", "simple-format", "setvbuf", "port-closed?", "throw", "error", "scm-error", "catch",
    "with-throw-handler", "make-atomic-box", "atomic-box-ref", "atomic-box-set!", "atomic-box-swap!", "atomic-box-compare-and-swap!", "set-car!", "set-cdr!",
    "substring", "string-take", "string-drop", "string-upcase", "string-downcase", "string-copy", "string-index", "string-rindex", "string-prefix?",
    "string-suffix?", "string-contains", "string-pad-left", "string-pad-right", "string->list", "list->string", "make-string", "char->integer",
    "integer->char", "string->number", "string->symbol", "symbol->string", "char?", "number?", "integer?", "boolean?", "procedure?", "even?", "odd?",
    "positive?", "negative?", "logior", "logxor", "ash", "map", "filter", "fold", "reduce", "iota", "last", "list-tail", "list-head", "vector->list",
    "list->vector", "vector-for-each", "values", "identity", "usleep", "sleep", "yield",
    "sort", "sort!", "stable-sort", "list-sort", "string<?", "string>?", "string<=?", "string>=?", "string-ci<?", "string-ci=?", "char<?", "char>?", "char=?", "delete",
    "delete-duplicates",
    "gmtime", "tm:sec", "tm:min", "tm:hour", "tm:mday", "tm:mon", "tm:year", "tm:wday", "tm:yday", "tm:isdst", "tm:gmtoff", "mktime", "current-time", "getuid", "geteuid",
    "getgid", "getegid", "getpid", "gethostname", "getenv", "getcwd", "file-exists?", "access?", "stat", "lstat", "stat:mtime", "stat:atime", "stat:ctime", "stat:size", "stat:uid",
    "stat:gid", "stat:mode", "stat:perms", "stat:ino", "stat:nlink", "stat:type",
    "call-with-values", "string-trim", "string-trim-right", "string-trim-both", "string-split", "string-reverse", "string-map", "string-for-each", "string-count",
    "char-upcase", "char-downcase", "char-alphabetic?", "char-numeric?", "char-whitespace?", "char-upper-case?", "char-lower-case?", "append-map", "list-copy", "vector-map",
    "vector-copy", "exact->inexact", "inexact->exact", "exact", "inexact", "round", "truncate", "floor", "ceiling", "expt",
    "make-condition-variable", "wait-condition-variable", "signal-condition-variable", "broadcast-condition-variable", "call-with-new-thread", "join-thread",
    "pair?", "list?", "symbol?", "cadr", "cddr", "caar", "cdar", "assq", "assv", "assoc", "assq-ref", "assv-ref", "assoc-ref", "memq", "memv",
    "current-thread", "try-mutex", "mutex-locked?", "mutex-owner", "call-with-output-string", "open-output-string", "get-output-string", "vector", "vector-ref", "vector-length", "make-vector",
    "vector-set!", "vector-fill!", "list-ref", "min", "max", "abs", "modulo", "remainder",
];

fn builtin_name(name: &str) -> Option<&'static str> {
    ACCESSORS.iter().chain(PROCEDURES.iter()).find(|n| **n == name).copied()
}

pub fn fnmatch(pat: &[char], s: &[char]) -> bool {
    if pat.is_empty() {
        return s.is_empty();
    }
    match pat[0] {
        '*' => (0..=s.len()).any(|k| fnmatch(&pat[1..], &s[k..])),
        '?' => !s.is_empty() && fnmatch(&pat[1..], &s[1..]),
        '[' => {
            if let Some(close) = pat.iter().skip(2).position(|c| *c == ']').map(|p| p + 2) {
                if s.is_empty() {
                    return false;
                }
                let set = &pat[1..close];
                let (neg, set) = if !set.is_empty() && (set[0] == '!' || set[0] == '^') { (true, &set[1..]) } else { (false, set) };
                let mut hit = false;
                let mut i = 0;
                while i < set.len() {
                    if i + 2 < set.len() && set[i + 1] == '-' {
                        if set[i] <= s[0] && s[0] <= set[i + 2] {
                            hit = true;
                        }
                        i += 3;
                    } else {
                        if set[i] == s[0] {
                            hit = true;
                        }
                        i += 1;
                    }
                }
                hit != neg && fnmatch(&pat[close + 1..], &s[1..])
            } else {
                !s.is_empty() && s[0] == '[' && fnmatch(&pat[1..], &s[1..])
            }
        }
        c => !s.is_empty() && s[0] == c && fnmatch(&pat[1..], &s[1..]),
    }
}

fn display_string(v: &Val) -> R<String> {
    Ok(match v {
        Val::Str(s) => s.to_string(),
        Val::Char(c) => c.to_string(),
        Val::Int(i) => i.to_string(),
        Val::Real(f) => format!("{f}"),
        Val::Bool(true) => "#t".into(),
        Val::Bool(false) => "#f".into(),
        Val::Unspec => String::new(),
        Val::Sym(x) => x.to_string(),
        Val::List(l) => {
            let mut parts = vec![];
            for v in l.iter() {
                parts.push(display_string(v)?);
            }
            format!("({})", parts.join(" "))
        }
        Val::Pair(p) => format!("({} . {})", display_string(&p.car.lock().unwrap())?, display_string(&p.cdr.lock().unwrap())?),
        other => return unsupported(format!("display of {other:?}")),
    })
}

/// `write` representation: strings quoted and escaped, characters as `#\x`, the rest as `display`
fn write_string(v: &Val) -> R<String> {
    Ok(match v {
        Val::Str(s) => {
            let mut out = String::from("\"");
            for c in s.chars() {
                match c {
                    '"' => out.push_str("\\\""),
                    '\\' => out.push_str("\\\\"),
                    '\n' => out.push_str("\\n"),
                    c => out.push(c),
                }
            }
            out.push('"');
            out
        }
        Val::Char(c) => format!("#\\{c}"),
        Val::List(l) => {
            let mut parts = vec![];
            for v in l.iter() {
                parts.push(write_string(v)?);
            }
            format!("({})", parts.join(" "))
        }
        other => display_string(other)?,
    })
}

/// A path without `.` components, doubled slashes and `name/..` pairs (relative stays relative).
fn lexical_path(p: &str) -> String {
    let absolute = p.starts_with('/');
    let mut parts: Vec<&str> = vec![];
    for comp in p.split('/') {
        match comp {
            "" | "." => {}
            ".." => {
                if matches!(parts.last(), Some(l) if *l != "..") {
                    parts.pop();
                } else if !absolute {
                    parts.push("..");
                }
            }
            c => parts.push(c),
        }
    }
    let joined = parts.join("/");
    if absolute {
        format!("/{joined}")
    } else if joined.is_empty() {
        ".".to_string()
    } else {
        joined
    }
}

fn quoted(x: &Sexp) -> R {
    Ok(match x {
        Sexp::Str(s) => Val::Str(Arc::from(s.as_str())),
        Sexp::Char(c) => Val::Char(*c),
        Sexp::Bool(b) => Val::Bool(*b),
        Sexp::Int(i) => Val::Int(*i),
        Sexp::Sym(s) => Val::Sym(Arc::from(s.as_str())),
        Sexp::List(items) => {
            if items.len() == 3 && matches!(&items[1], Sexp::Sym(d) if d == ".") {
                return Ok(pair(quoted(&items[0])?, quoted(&items[2])?));
            }
            if items.iter().any(|i| matches!(i, Sexp::Sym(d) if d == ".")) {
                return unsupported("quoted improper list");
            }
            let mut out = vec![];
            for i in items {
                out.push(quoted(i)?);
            }
            Val::List(Arc::new(out))
        }
    })
}

/// eqv?-style sameness of two values used as keys
fn same_key(a: &Val, b: &Val) -> bool {
    match (a, b) {
        (Val::Str(x), Val::Str(y)) => x == y,
        (Val::Int(x), Val::Int(y)) => x == y,
        (Val::Char(x), Val::Char(y)) => x == y,
        (Val::Bool(x), Val::Bool(y)) => x == y,
        (Val::Sym(x), Val::Sym(y)) => x == y,
        (Val::Port(x), Val::Port(y)) => x == y,
        (Val::Mutex(x), Val::Mutex(y)) => x == y,
        _ => false,
    }
}

fn key_hash(v: &Val) -> u64 {
    match v {
        Val::Str(x) => crate::rng::hash_str(x),
        Val::Sym(x) => crate::rng::hash_str(x) ^ 0x55,
        Val::Int(x) => crate::rng::mix(&[*x as u64, 0x1]),
        Val::Char(x) => crate::rng::mix(&[*x as u64, 0x2]),
        Val::Bool(x) => *x as u64,
        Val::Port(x) => crate::rng::mix(&[*x as u64, 0x3]),
        Val::Mutex(x) => crate::rng::mix(&[*x as u64, 0x4]),
        _ => 0,
    }
}

fn truthy(v: &Val) -> bool {
    !matches!(v, Val::Bool(false))
}

fn as_int(v: &Val, what: &str) -> R<i128> {
    match v {
        Val::Int(i) => Ok(*i),
        other => runtime(format!("{what}: expected an integer, got {other:?}")),
    }
}

fn as_str<'a>(v: &'a Val, what: &str) -> R<&'a str> {
    match v {
        Val::Str(s) => Ok(s),
        other => runtime(format!("{what}: expected a string, got {other:?}")),
    }
}

fn num_cmp(args: &[Val], what: &str, ok: fn(std::cmp::Ordering) -> bool) -> R {
    if args.len() < 2 {
        return runtime(format!("{what}: needs two arguments"));
    }
    for w in args.windows(2) {
        let ord = match (&w[0], &w[1]) {
            (Val::Int(a), Val::Int(b)) => a.cmp(b),
            (a, b) => {
                let to_f = |v: &Val| -> R<f64> {
                    match v {
                        Val::Int(i) => Ok(*i as f64),
                        Val::Real(r) => Ok(*r),
                        other => runtime(format!("{what}: expected a number, got {other:?}")),
                    }
                };
                match to_f(a)?.partial_cmp(&to_f(b)?) {
                    Some(o) => o,
                    None => return Ok(Val::Bool(false)),
                }
            }
        };
        if !ok(ord) {
            return Ok(Val::Bool(false));
        }
    }
    Ok(Val::Bool(true))
}

impl Runtime {
    pub fn new(concurrent: bool, files: Vec<FileRec>, knobs: Knobs) -> Runtime {
        Runtime {
            concurrent,
            files,
            knobs,
            ports: StdMutex::new(vec![]),
            mutexes: StdMutex::new(vec![]),
            log: StdMutex::new(vec![]),
            stop: AtomicBool::new(false),
            calls: AtomicU64::new(0),
            contended: AtomicU64::new(0),
            next_file: AtomicUsize::new(0),
            assigned: StdMutex::new(Default::default()),
            sched: StdMutex::new(None),
            default_out: StdMutex::new(None),
            default_err: StdMutex::new(None),
        }
    }

    fn ev(&self, e: Ev) {
        self.log.lock().unwrap().push(e);
    }

    /// A scheduling point: the scheduler may switch scanner threads here.
    fn point(&self) {
        if self.concurrent {
            shuttle::thread::sleep(std::time::Duration::ZERO);
        }
    }

    /// The thread cannot do anything useful right now (a failed `try-mutex`, a poll that says
    /// "busy", a pause): it gives way to the others.
    fn yield_point(&self) {
        if self.concurrent {
            shuttle::thread::yield_now();
        }
    }

    pub fn destination(&self, port: usize) -> String {
        self.ports.lock().unwrap().get(port).map(|p| p.dest.clone()).unwrap_or_default()
    }

    pub fn destinations(&self) -> Vec<String> {
        self.ports.lock().unwrap().iter().map(|p| p.dest.clone()).collect()
    }

    /// Hand `data` over to the destination: one Write event per run of equal provenance.
    fn emit(&self, port: usize, data: &[BufChar]) {
        let mut i = 0;
        while i < data.len() {
            let (_, file, call, thread) = data[i];
            let mut j = i;
            while j < data.len() && (data[j].1, data[j].2, data[j].3) == (file, call, thread) {
                j += 1;
            }
            let chars: String = data[i..j].iter().map(|c| c.0).collect();
            self.ev(Ev::Write { thread, file, port, chars, call });
            i = j;
        }
    }

    /// Flush a buffered port: read the cursor, hand the data over, reset the cursor — three
    /// separate steps, none of them synchronised by the port itself.
    fn flush_port(&self, ctx: &Ctx, port: usize) {
        if self.knobs.buffer_cap.is_none() {
            self.point();
            return;
        }
        self.point();
        self.ev(Ev::PortOp { thread: ctx.thread, port });
        let n = match self.ports.lock().unwrap().get(port) {
            Some(p) => p.cursor,
            None => return,
        };
        self.point();
        let take = |n: usize| -> Vec<BufChar> {
            let ports = self.ports.lock().unwrap();
            let p = &ports[port];
            p.buf[..n.min(p.buf.len())].to_vec()
        };
        if self.knobs.flush_resets_first {
            // Guile's own order (ports.c, scm_i_write): read the cursors, reset the buffer, then write
            // the bytes out of that same buffer — what another thread puts at its start in between
            // goes out in place of the first bytes, and stays buffered as well
            self.ports.lock().unwrap()[port].cursor = 0;
            self.point();
            let data = take(n);
            self.emit(port, &data);
        } else {
            let data = take(n);
            self.emit(port, &data);
            self.point();
            self.ports.lock().unwrap()[port].cursor = 0;
        }
    }

    /// End of the program: whatever is still buffered reaches its destination.
    fn flush_all(&self, ctx: &Ctx) {
        let n = self.ports.lock().unwrap().len();
        for port in 0..n {
            let open = {
                let ps = self.ports.lock().unwrap();
                ps[port].open && ps[port].capture.is_none()
            };
            if open {
                self.flush_port(ctx, port);
            }
        }
    }

    fn file<'a>(&'a self, ctx: &Ctx, what: &str) -> R<&'a FileRec> {
        self.files.get(ctx.file).ok_or(EvalErr::Runtime(format!("{what}: no current file")))
    }

    fn write(&self, ctx: &mut Ctx, port: usize, text: &str) -> R<()> {
        {
            let ports = self.ports.lock().unwrap();
            match ports.get(port) {
                None => return runtime("display: no such port"),
                Some(p) if !p.open => return runtime("display: port is closed"),
                _ => {}
            }
        }
        if self.ports.lock().unwrap()[port].capture.is_some() {
            // a string port is shared mutable state like any other: the append is atomic, its
            // place in the schedule is not
            self.point();
            if let Some(c) = self.ports.lock().unwrap()[port].capture.as_mut() {
                c.push_str(text);
            }
            return Ok(());
        }
        let chars: Vec<char> = text.chars().collect();
        let ordinal = ctx.writes_of_file;
        ctx.writes_of_file += 1;
        // split points depend on (file, ordinal) only
        let mut cuts = vec![];
        if self.knobs.max_chunks > 1 && chars.len() > 1 {
            let mut s = crate::rng::mix(&[self.knobs.chunk_seed, ctx.file as u64, ordinal]);
            let n = (crate::rng::splitmix(&mut s) % self.knobs.max_chunks as u64) as usize;
            for _ in 0..n {
                cuts.push(1 + (crate::rng::splitmix(&mut s) % (chars.len() as u64 - 1)) as usize);
            }
            cuts.sort();
            cuts.dedup();
        }
        cuts.push(chars.len());
        let mut start = 0;
        for cut in cuts {
            if self.concurrent && chars.len() >= 1024 {
                if let (Some(n), Some(sh)) = (self.knobs.stall_large_writes, self.sched.lock().unwrap().as_ref()) {
                    *sh.stall_request.lock().unwrap() = Some(n);
                }
            }
            self.point();
            self.ev(Ev::PortOp { thread: ctx.thread, port });
            match self.knobs.buffer_cap {
                None => {
                    let chunk: String = chars[start..cut].iter().collect();
                    self.ev(Ev::Write { thread: ctx.thread, file: ctx.file, port, chars: chunk, call: ctx.call });
                }
                Some(cap) => {
                    // read the cursor, then (later) store the characters there and advance it
                    let (cur, generation) = {
                        let ports = self.ports.lock().unwrap();
                        (ports[port].cursor, ports[port].generation)
                    };
                    self.point();
                    let full = {
                        let mut ports = self.ports.lock().unwrap();
                        let p = &mut ports[port];
                        if p.generation != generation {
                            // the buffer fetched above has been replaced meanwhile: these
                            // characters go into the old object and are never delivered
                            start = cut;
                            continue;
                        }
                        let n = cut - start;
                        if p.buf.len() < cur + n {
                            p.buf.resize(cur + n, ('\u{0}', NO_FILE, 0, 0));
                        }
                        for (i, ch) in chars[start..cut].iter().enumerate() {
                            p.buf[cur + i] = (*ch, ctx.file, ctx.call, ctx.thread);
                        }
                        p.cursor = cur + n;
                        p.cursor >= cap
                    };
                    if full {
                        self.flush_port(ctx, port);
                    }
                }
            }
            start = cut;
        }
        if chars.is_empty() {
            self.point();
        }
        Ok(())
    }

    fn cell(&self, mutex: usize, what: &str) -> R<Arc<MutexCell>> {
        let ms = self.mutexes.lock().unwrap();
        match ms.get(mutex) {
            Some(c) => Ok(c.clone()),
            None => runtime(format!("{what}: no such mutex")),
        }
    }

    /// lock-mutex: blocks (under the controlled scheduler) until the mutex is free.
    fn acquire(&self, mutex: usize, ctx: &mut Ctx, what: &str) -> R<()> {
        let cell = self.cell(mutex, what)?;
        if cell.owner.load(Ordering::SeqCst) == ctx.thread + 1 {
            if cell.recursive {
                cell.depth.fetch_add(1, Ordering::SeqCst);
                return Ok(());
            }
            return runtime(format!("{what}: mutex already locked by the current thread"));
        }
        if self.concurrent && cell.owner.load(Ordering::SeqCst) != 0 {
            self.contended.fetch_add(1, Ordering::SeqCst);
        }
        match &cell.sh {
            Some((m, cv)) => {
                let mut g = m.lock().unwrap_or_else(|e| e.into_inner());
                while *g {
                    g = cv.wait(g).unwrap_or_else(|e| e.into_inner());
                }
                *g = true;
            }
            None => {
                if cell.owner.load(Ordering::SeqCst) != 0 {
                    return runtime(format!("{what}: mutex held by another thread in a sequential run"));
                }
            }
        }
        cell.owner.store(ctx.thread + 1, Ordering::SeqCst);
        cell.depth.store(1, Ordering::SeqCst);
        self.ev(Ev::Lock { thread: ctx.thread, mutex });
        Ok(())
    }

    fn release(&self, mutex: usize, ctx: &mut Ctx, what: &str) -> R<()> {
        let cell = self.cell(mutex, what)?;
        if cell.owner.load(Ordering::SeqCst) != ctx.thread + 1 {
            return runtime(format!("{what}: mutex not locked by the current thread"));
        }
        if cell.depth.fetch_sub(1, Ordering::SeqCst) > 1 {
            return Ok(());
        }
        cell.owner.store(0, Ordering::SeqCst);
        self.ev(Ev::Unlock { thread: ctx.thread, mutex });
        if let Some((m, cv)) = &cell.sh {
            *m.lock().unwrap_or_else(|e| e.into_inner()) = false;
            cv.notify_one();
        }
        self.point();
        Ok(())
    }

    fn pair_cdr(&self, p: &PairCell) -> Val {
        if p.mutated.load(Ordering::SeqCst) {
            self.point();
        }
        p.cdr.lock().unwrap().clone()
    }

    /// the port that `(display x)` without a port argument writes to
    fn default_port(&self) -> usize {
        let mut d = self.default_out.lock().unwrap();
        if let Some(p) = *d {
            return p;
        }
        let mut ports = self.ports.lock().unwrap();
        ports.push(PortSt { dest: "stdout".to_string(), open: true, buf: vec![], cursor: 0, generation: 0, capture: None });
        let id = ports.len() - 1;
        drop(ports);
        self.ev(Ev::OpenPort { port: id, dest: "stdout".to_string() });
        *d = Some(id);
        id
    }

    /// `(current-error-port)`: one port object per process, on the destination "stderr"
    fn error_port(&self) -> usize {
        let mut d = self.default_err.lock().unwrap();
        if let Some(p) = *d {
            return p;
        }
        let mut ports = self.ports.lock().unwrap();
        ports.push(PortSt { dest: "stderr".to_string(), open: true, buf: vec![], cursor: 0, generation: 0, capture: None });
        let id = ports.len() - 1;
        drop(ports);
        self.ev(Ev::OpenPort { port: id, dest: "stderr".to_string() });
        *d = Some(id);
        id
    }

    fn with_mutex(&self, mutex: usize, ctx: &mut Ctx, body: impl FnOnce(&mut Ctx) -> R) -> R {
        self.acquire(mutex, ctx, "with-mutex")?;
        let r = body(ctx);
        // A2: released on normal and non-local exit
        self.release(mutex, ctx, "with-mutex")?;
        r
    }

    /// `(define name expr)` / `(define (name params...) body...)`: returns the extended environment.
    fn define(self: &Arc<Self>, items: &[Sexp], env: &Env, ctx: &mut Ctx) -> R<Env> {
        match items.get(1) {
            Some(Sexp::Sym(n)) => {
                let v = match items.get(2) {
                    Some(init) => self.eval(init, env, ctx)?,
                    None => Val::Unspec,
                };
                Ok(bind(env, n, v))
            }
            Some(Sexp::List(sig)) => {
                let Some(Sexp::Sym(n)) = sig.first() else { return unsupported("malformed define") };
                let mut params = vec![];
                for p in &sig[1..] {
                    match p {
                        Sexp::Sym(x) => params.push(x.clone()),
                        _ => return unsupported("define parameter that is not a symbol"),
                    }
                }
                // the procedure may refer to itself: bind first, then patch the cell
                let inner = bind(env, n, Val::Unspec);
                let clo = Val::Closure(Arc::new(Closure { rest: None, params, body: items[2..].to_vec(), env: inner.clone() }));
                *inner.as_ref().unwrap().val.lock().unwrap() = clo;
                Ok(inner)
            }
            _ => unsupported("malformed define"),
        }
    }

    /// Evaluate a body; internal `define`s extend the environment of the forms that follow.
    fn eval_body(self: &Arc<Self>, forms: &[Sexp], env: &Env, ctx: &mut Ctx, tail: bool) -> R {
        let mut env = env.clone();
        let mut last = Val::Unspec;
        let n = forms.len();
        for (i, form) in forms.iter().enumerate() {
            if let Sexp::List(items) = form {
                if matches!(items.first(), Some(Sexp::Sym(h)) if h == "define") && lookup(&env, "define").is_none() {
                    env = self.define(items, &env, ctx)?;
                    last = Val::Unspec;
                    continue;
                }
            }
            last = self.eval_tail(form, &env, ctx, tail && i + 1 == n)?;
        }
        Ok(last)
    }

    pub fn apply(self: &Arc<Self>, f: &Val, args: Vec<Val>, ctx: &mut Ctx) -> R {
        // calls in tail position of a procedure body come back here and are performed in this loop
        let (mut f, mut args) = (f.clone(), args);
        let mut rounds = 0u64;
        while let Val::Closure(c) = &f {
            rounds += 1;
            if rounds > 50_000_000 {
                return runtime("a loop written as tail recursion does not terminate");
            }
            if c.params.len() != args.len() && !(c.rest.is_some() && args.len() > c.params.len()) {
                return runtime(format!("wrong number of arguments to procedure: expected {}, got {}", c.params.len(), args.len()));
            }
            let mut env = c.env.clone();
            let mut it = args.into_iter();
            for p in c.params.iter() {
                env = bind(&env, p, it.next().unwrap_or(Val::Unspec));
            }
            if let Some(r) = &c.rest {
                env = bind(&env, r, Val::List(Arc::new(it.collect())));
            }
            match self.eval_body(&c.body, &env, ctx, true) {
                Err(EvalErr::TailCall(Thrown(mut call))) => {
                    let callee = call.remove(0);
                    f = callee;
                    args = call;
                }
                other => return other,
            }
        }
        let f = &f;
        match f {
            Val::Closure(_) => unreachable!(),
            Val::Printer { port, mutex, term } => {
                if args.len() != 1 {
                    return runtime("printer: expected one argument");
                }
                let text = display_string(&args[0])?;
                let call = self.calls.fetch_add(1, Ordering::SeqCst) + 1;
                self.ev(Ev::PrinterCall { thread: ctx.thread, file: ctx.file, call, port: *port, text: text.clone(), term: *term });
                let (port, term) = (*port, *term);
                let saved = ctx.call;
                ctx.call = call;
                let r = self.with_mutex(*mutex, ctx, |ctx| {
                    self.write(ctx, port, &text)?;
                    if let Some(t) = term {
                        self.write(ctx, port, &t.to_string())?;
                    }
                    Ok(Val::Unspec)
                });
                ctx.call = saved;
                r
            }
            Val::Builtin(name) => self.builtin(name, args, ctx),
            other => runtime(format!("attempt to apply a non-procedure: {other:?}")),
        }
    }

    /// Evaluate a form that is in tail position of the enclosing procedure body.
    fn eval_tail(self: &Arc<Self>, x: &Sexp, env: &Env, ctx: &mut Ctx, tail: bool) -> R {
        ctx.tail = tail;
        self.eval(x, env, ctx)
    }

    pub fn eval(self: &Arc<Self>, x: &Sexp, env: &Env, ctx: &mut Ctx) -> R {
        let tail = std::mem::replace(&mut ctx.tail, false);
        ctx.depth += 1;
        if ctx.depth > 400 {
            ctx.depth -= 1;
            return unsupported("expression nesting too deep for the stub evaluator");
        }
        let r = self.eval_inner(x, env, ctx, tail);
        ctx.depth -= 1;
        r
    }

    fn eval_inner(self: &Arc<Self>, x: &Sexp, env: &Env, ctx: &mut Ctx, tail: bool) -> R {
        match x {
            Sexp::Str(s) => Ok(Val::Str(Arc::from(s.as_str()))),
            Sexp::Char(c) => Ok(Val::Char(*c)),
            Sexp::Bool(b) => Ok(Val::Bool(*b)),
            Sexp::Int(i) => Ok(Val::Int(*i)),
            Sexp::Sym(s) => {
                if let Some(f) = find_frame(env, s) {
                    if f.mutated.load(Ordering::SeqCst) || (self.concurrent && ctx.thread != MAIN_THREAD && self.assigned.lock().unwrap().contains(s.as_str())) {
                        // a variable that is assigned somewhere: its reads can race
                        self.point();
                    }
                    return Ok(f.val.lock().unwrap().clone());
                }
                match builtin_name(s) {
                    Some(b) => Ok(Val::Builtin(b)),
                    None => {
                        if s.starts_with("%lf3:") {
                            runtime(format!("unbound variable {s}"))
                        } else {
                            unsupported(format!("unknown variable {s}"))
                        }
                    }
                }
            }
            Sexp::List(items) => {
                let Some(head) = items.first() else { return runtime("empty application") };
                if let Sexp::Sym(s) = head {
                    // special forms, unless shadowed
                    if lookup(env, s).is_none() {
                        match s.as_str() {
                            "use-modules" => return Ok(Val::Unspec),
                            "quote" => {
                                let Some(q) = items.get(1) else { return unsupported("malformed quote") };
                                return quoted(q);
                            }
                            "lambda" => {
                                let (params, rest) = match items.get(1) {
                                    Some(Sexp::Sym(all)) => (vec![], Some(all.clone())),
                                    Some(Sexp::List(ps)) => {
                                        let mut params = vec![];
                                        let mut rest = None;
                                        let mut k = 0;
                                        while k < ps.len() {
                                            match &ps[k] {
                                                Sexp::Sym(d) if d == "." => match (ps.get(k + 1), ps.len() == k + 2) {
                                                    (Some(Sexp::Sym(r)), true) => {
                                                        rest = Some(r.clone());
                                                        k += 1;
                                                    }
                                                    _ => return unsupported("malformed rest parameter"),
                                                },
                                                Sexp::Sym(n) => params.push(n.clone()),
                                                _ => return unsupported("lambda parameter that is not a symbol"),
                                            }
                                            k += 1;
                                        }
                                        (params, rest)
                                    }
                                    _ => return unsupported("lambda without parameter list"),
                                };
                                return Ok(Val::Closure(Arc::new(Closure { rest, params, body: items[2..].to_vec(), env: env.clone() })));
                            }
                            "let" if matches!(items.get(1), Some(Sexp::Sym(_))) => {
                                // named let: (let loop ((v init) ...) body ...)
                                let (Some(Sexp::Sym(lname)), Some(Sexp::List(bs))) = (items.get(1), items.get(2)) else {
                                    return unsupported("malformed named let");
                                };
                                let mut params = vec![];
                                let mut inits = vec![];
                                for b in bs {
                                    let Sexp::List(pair) = b else { return unsupported("malformed binding") };
                                    let (Some(Sexp::Sym(n)), Some(init)) = (pair.first(), pair.get(1)) else {
                                        return unsupported("malformed binding");
                                    };
                                    params.push(n.clone());
                                    inits.push(self.eval(init, env, ctx)?);
                                }
                                let inner = bind(env, lname, Val::Unspec);
                                let clo = Val::Closure(Arc::new(Closure { rest: None, params, body: items[3..].to_vec(), env: inner.clone() }));
                                *inner.as_ref().unwrap().val.lock().unwrap() = clo.clone();
                                return self.apply(&clo, inits, ctx);
                            }
                            "letrec" | "letrec*" => {
                                // every binding is in scope of every initialiser (mutually recursive procedures)
                                let Some(Sexp::List(bs)) = items.get(1) else { return unsupported("letrec without binding list") };
                                let mut inner = env.clone();
                                let mut names = vec![];
                                for b in bs {
                                    let Sexp::List(pair) = b else { return unsupported("malformed binding") };
                                    let (Some(Sexp::Sym(n)), Some(init)) = (pair.first(), pair.get(1)) else {
                                        return unsupported("malformed binding");
                                    };
                                    inner = bind(&inner, n, Val::Unspec);
                                    names.push((n.clone(), init.clone()));
                                }
                                for (n, init) in &names {
                                    let v = self.eval(init, &inner, ctx)?;
                                    if let Some(f) = find_frame(&inner, n) {
                                        *f.val.lock().unwrap() = v;
                                    }
                                }
                                return self.eval_body(&items[2..], &inner, ctx, tail);
                            }
                            "let*" | "let" => {
                                let Some(Sexp::List(bs)) = items.get(1) else { return unsupported("let without binding list") };
                                let mut inner = env.clone();
                                let mut pending = vec![];
                                for b in bs {
                                    let Sexp::List(pair) = b else { return unsupported("malformed binding") };
                                    let (Some(Sexp::Sym(n)), Some(init)) = (pair.first(), pair.get(1)) else {
                                        return unsupported("malformed binding");
                                    };
                                    if s == "let*" {
                                        let v = self.eval(init, &inner, ctx)?;
                                        inner = bind(&inner, n, v);
                                    } else {
                                        pending.push((n.clone(), self.eval(init, env, ctx)?));
                                    }
                                }
                                for (n, v) in pending {
                                    inner = bind(&inner, &n, v);
                                }
                                return self.eval_body(&items[2..], &inner, ctx, tail);
                            }
                            "set!" => {
                                let (Some(Sexp::Sym(n)), Some(init)) = (items.get(1), items.get(2)) else {
                                    return unsupported("malformed set!");
                                };
                                let v = self.eval(init, env, ctx)?;
                                let Some(f) = find_frame(env, n) else { return runtime(format!("set!: unbound variable {n}")) };
                                f.mutated.store(true, Ordering::SeqCst);
                                self.point();
                                *f.val.lock().unwrap() = v;
                                return Ok(Val::Unspec);
                            }
                            "cond" => {
                                for clause in &items[1..] {
                                    let Sexp::List(c) = clause else { return unsupported("malformed cond clause") };
                                    let Some(test) = c.first() else { return unsupported("empty cond clause") };
                                    let hit = if matches!(test, Sexp::Sym(e) if e == "else") {
                                        Val::Bool(true)
                                    } else {
                                        self.eval(test, env, ctx)?
                                    };
                                    if truthy(&hit) {
                                        // (test => receiver): the receiver is applied to the value of the test
                                        if matches!(c.get(1), Some(Sexp::Sym(a)) if a == "=>") {
                                            let Some(recv) = c.get(2) else { return unsupported("cond => without receiver") };
                                            let f = self.eval(recv, env, ctx)?;
                                            return self.apply(&f, vec![hit], ctx);
                                        }
                                        let mut last = hit;
                                        let n = c.len() - 1;
                                        for (i, form) in c[1..].iter().enumerate() {
                                            last = self.eval_tail(form, env, ctx, tail && i + 1 == n)?;
                                        }
                                        return Ok(last);
                                    }
                                }
                                return Ok(Val::Unspec);
                            }
                            "case" => {
                                let key = self.eval(items.get(1).ok_or(EvalErr::Runtime("case without key".into()))?, env, ctx)?;
                                for clause in &items[2..] {
                                    let Sexp::List(c) = clause else { return unsupported("malformed case clause") };
                                    let hit = match c.first() {
                                        Some(Sexp::Sym(e)) if e == "else" => true,
                                        Some(Sexp::List(data)) => {
                                            let mut any = false;
                                            for d in data {
                                                any |= same_key(&quoted(d)?, &key);
                                            }
                                            any
                                        }
                                        _ => return unsupported("malformed case clause"),
                                    };
                                    if hit {
                                        let mut last = Val::Unspec;
                                        let n = c.len() - 1;
                                        for (i, form) in c[1..].iter().enumerate() {
                                            last = self.eval_tail(form, env, ctx, tail && i + 1 == n)?;
                                        }
                                        return Ok(last);
                                    }
                                }
                                return Ok(Val::Unspec);
                            }
                            "do" => {
                                // (do ((var init step) ...) (test result ...) body ...)
                                let (Some(Sexp::List(specs)), Some(Sexp::List(end))) = (items.get(1), items.get(2)) else { return unsupported("malformed do") };
                                let mut vars: Vec<(String, Option<Sexp>)> = vec![];
                                let mut inner = env.clone();
                                let mut inits = vec![];
                                for sp in specs {
                                    let Sexp::List(sp) = sp else { return unsupported("malformed do binding") };
                                    let (Some(Sexp::Sym(n)), Some(init)) = (sp.first(), sp.get(1)) else { return unsupported("malformed do binding") };
                                    inits.push((n.clone(), self.eval(init, env, ctx)?));
                                    vars.push((n.clone(), sp.get(2).cloned()));
                                }
                                for (n, v) in inits {
                                    inner = bind(&inner, &n, v);
                                }
                                let mut rounds = 0u64;
                                loop {
                                    rounds += 1;
                                    if rounds > 1_000_000 {
                                        return runtime("do loop does not terminate");
                                    }
                                    let t = self.eval(end.first().ok_or(EvalErr::Runtime("do without test".into()))?, &inner, ctx)?;
                                    if truthy(&t) {
                                        let mut last = Val::Unspec;
                                        for form in &end[1..] {
                                            last = self.eval(form, &inner, ctx)?;
                                        }
                                        return Ok(last);
                                    }
                                    for form in &items[3..] {
                                        self.eval(form, &inner, ctx)?;
                                    }
                                    let mut next = vec![];
                                    for (n, step) in &vars {
                                        if let Some(st) = step {
                                            next.push((n.clone(), self.eval(st, &inner, ctx)?));
                                        }
                                    }
                                    for (n, v) in next {
                                        inner = bind(&inner, &n, v);
                                    }
                                }
                            }
                            "receive" => {
                                // (receive (a b . rest) expr body ...)
                                let (Some(formals), Some(expr)) = (items.get(1), items.get(2)) else { return unsupported("malformed receive") };
                                let lam = Sexp::List([vec![Sexp::Sym("lambda".into()), formals.clone()], items[3..].to_vec()].concat());
                                let f = self.eval(&lam, env, ctx)?;
                                let got = self.eval(expr, env, ctx)?;
                                let list = match got {
                                    Val::Values(v) => v.to_vec(),
                                    other => vec![other],
                                };
                                return self.apply(&f, list, ctx);
                            }
                            "let-values" | "let*-values" => {
                                let Some(Sexp::List(bs)) = items.get(1) else { return unsupported("malformed let-values") };
                                let mut inner = env.clone();
                                for b in bs {
                                    let Sexp::List(pair) = b else { return unsupported("malformed let-values binding") };
                                    let (Some(Sexp::List(names)), Some(init)) = (pair.first(), pair.get(1)) else { return unsupported("let-values with a rest formal") };
                                    let scope = if s == "let-values" { env } else { &inner };
                                    let got = self.eval(init, scope, ctx)?;
                                    let list = match got {
                                        Val::Values(v) => v.to_vec(),
                                        other => vec![other],
                                    };
                                    if list.len() != names.len() {
                                        return runtime("let-values: number of values does not match the formals");
                                    }
                                    for (n, v) in names.iter().zip(list) {
                                        let Sexp::Sym(n) = n else { return unsupported("let-values formal that is not a symbol") };
                                        inner = bind(&inner, n, v);
                                    }
                                }
                                return self.eval_body(&items[2..], &inner, ctx, tail);
                            }
                            "false-if-exception" => {
                                let mut last = Val::Unspec;
                                for form in &items[1..] {
                                    match self.eval(form, env, ctx) {
                                        Ok(v) => last = v,
                                        Err(EvalErr::Unsupported(e)) => return unsupported(e),
                                        Err(_) => return Ok(Val::Bool(false)),
                                    }
                                }
                                return Ok(last);
                            }
                            "begin" => {
                                let mut last = Val::Unspec;
                                let n = items.len() - 1;
                                for (i, form) in items[1..].iter().enumerate() {
                                    last = self.eval_tail(form, env, ctx, tail && i + 1 == n)?;
                                }
                                return Ok(last);
                            }
                            "and" => {
                                let mut last = Val::Bool(true);
                                let n = items.len() - 1;
                                for (i, form) in items[1..].iter().enumerate() {
                                    last = self.eval_tail(form, env, ctx, tail && i + 1 == n)?;
                                    if !truthy(&last) {
                                        return Ok(last);
                                    }
                                }
                                return Ok(last);
                            }
                            "or" => {
                                let n = items.len() - 1;
                                for (i, form) in items[1..].iter().enumerate() {
                                    let v = self.eval_tail(form, env, ctx, tail && i + 1 == n)?;
                                    if truthy(&v) {
                                        return Ok(v);
                                    }
                                }
                                return Ok(Val::Bool(false));
                            }
                            "if" => {
                                let c = self.eval(items.get(1).ok_or(EvalErr::Runtime("if without test".into()))?, env, ctx)?;
                                return if truthy(&c) {
                                    self.eval_tail(items.get(2).ok_or(EvalErr::Runtime("if without consequent".into()))?, env, ctx, tail)
                                } else if let Some(alt) = items.get(3) {
                                    self.eval_tail(alt, env, ctx, tail)
                                } else {
                                    Ok(Val::Unspec)
                                };
                            }
                            "when" | "unless" => {
                                let c = self.eval(items.get(1).ok_or(EvalErr::Runtime("when without test".into()))?, env, ctx)?;
                                if truthy(&c) == (s == "when") {
                                    let mut last = Val::Unspec;
                                    let n = items.len() - 2;
                                    for (i, form) in items[2..].iter().enumerate() {
                                        last = self.eval_tail(form, env, ctx, tail && i + 1 == n)?;
                                    }
                                    return Ok(last);
                                }
                                return Ok(Val::Unspec);
                            }
                            "with-mutex" => {
                                let m = self.eval(items.get(1).ok_or(EvalErr::Runtime("with-mutex without mutex".into()))?, env, ctx)?;
                                let Val::Mutex(id) = m else { return runtime(format!("with-mutex: not a mutex: {m:?}")) };
                                let body = &items[2..];
                                return self.with_mutex(id, ctx, |ctx| {
                                    let mut last = Val::Unspec;
                                    for form in body {
                                        last = self.eval(form, env, ctx)?;
                                    }
                                    Ok(last)
                                });
                            }
                            _ => {}
                        }
                    }
                }
                let f = self.eval(head, env, ctx)?;
                let mut args = Vec::with_capacity(items.len() - 1);
                for a in &items[1..] {
                    args.push(self.eval(a, env, ctx)?);
                }
                if tail && matches!(f, Val::Closure(_)) {
                    // performed by the `apply` of the enclosing procedure
                    let mut call = vec![f];
                    call.extend(args);
                    return Err(EvalErr::TailCall(Thrown(call)));
                }
                self.apply(&f, args, ctx)
            }
        }
    }

    fn builtin(self: &Arc<Self>, name: &'static str, args: Vec<Val>, ctx: &mut Ctx) -> R {
        let int = |i: u64| Ok(Val::Int(i as i128));
        let s = |t: &str| Ok(Val::Str(Arc::from(t)));
        match name {
            // ---- file accessors
            "mode" => int(self.file(ctx, name)?.mode as u64),
            "size" => int(self.file(ctx, name)?.size),
            "uid" => int(self.file(ctx, name)?.uid as u64),
            "gid" => int(self.file(ctx, name)?.gid as u64),
            "ino" => int(self.file(ctx, name)?.ino),
            "nlink" => int(self.file(ctx, name)?.nlink),
            "atime" => Ok(Val::Int(self.file(ctx, name)?.atime as i128)),
            "ctime" => Ok(Val::Int(self.file(ctx, name)?.ctime as i128)),
            "mtime" => Ok(Val::Int(self.file(ctx, name)?.mtime as i128)),
            "blocks" => int(self.file(ctx, name)?.blocks),
            "type" => int((self.file(ctx, name)?.mode & 0o170000) as u64),
            "projid" => int(self.file(ctx, name)?.projid as u64),
            "file-fid" => {
                let f = self.file(ctx, name)?;
                s(&format!("[0x{:x}:0x{:x}:0x0]", 0x200000400u64 + f.ino / 7, f.ino))
            }
            "relative-path" => s(&self.file(ctx, name)?.rel_path),
            "absolute-path" => s(&self.file(ctx, name)?.abs_path),
            "name" => s(&self.file(ctx, name)?.name),
            "user" => s(&format!("u{}", self.file(ctx, name)?.uid)),
            "group" => s(&format!("g{}", self.file(ctx, name)?.gid)),
            "lov-stripe-count" => int(self.file(ctx, name)?.stripe_count as u64),
            "lov-stripe-size" => int(self.file(ctx, name)?.stripe_size as u64),
            "lov-mirror-count" => int(self.file(ctx, name)?.mirror_count as u64),
            "lov-pools" => Ok(Val::List(Arc::new(self.file(ctx, name)?.pools.iter().map(|p| Val::Str(Arc::from(p.as_str()))).collect()))),
            "empty" => Ok(Val::Bool(self.file(ctx, name)?.empty)),
            "executable" => Ok(Val::Bool(self.file(ctx, name)?.executable)),
            "readable" => Ok(Val::Bool(self.file(ctx, name)?.readable)),
            "writable" => Ok(Val::Bool(self.file(ctx, name)?.writable)),
            "lipe-scan-client-mount-path" | "lipe-getopt-client-mount-path" => s("/mnt/lustre"),
            "lipe-getopt-required-attrs" => Ok(Val::Int(0)),
            "lipe-getopt-thread-count" => int(self.knobs.threads as u64),
            "print-relative-path" | "print-file-fid" => {
                // printing done by the runtime itself, outside emitted printers
                self.ev(Ev::RuntimePrint { thread: ctx.thread, file: ctx.file });
                Ok(Val::Bool(true))
            }
            "xattr?" => {
                let n = as_str(args.first().unwrap_or(&Val::Unspec), name)?.to_string();
                Ok(Val::Bool(self.file(ctx, name)?.xattrs.iter().any(|(k, _)| *k == n)))
            }
            "xattr-ref-string" => {
                let n = as_str(args.first().unwrap_or(&Val::Unspec), name)?.to_string();
                match self.file(ctx, name)?.xattrs.iter().find(|(k, _)| *k == n || k.ends_with(&format!(".{n}"))) {
                    Some((_, v)) => s(v),
                    None => Ok(Val::Bool(false)),
                }
            }
            "xattr-match?" => {
                let n = as_str(args.first().unwrap_or(&Val::Unspec), name)?.to_string();
                let p: Vec<char> = as_str(args.get(1).unwrap_or(&Val::Unspec), name)?.chars().collect();
                Ok(Val::Bool(self.file(ctx, name)?.xattrs.iter().any(|(k, v)| *k == n && fnmatch(&p, &v.chars().collect::<Vec<_>>()))))
            }
            "call-with-name" | "call-with-relative-path" => {
                let f = self.file(ctx, name)?;
                let arg = if name == "call-with-name" { f.name.clone() } else { f.rel_path.clone() };
                let Some(proc_) = args.first() else { return runtime(format!("{name}: missing procedure")) };
                self.apply(proc_, vec![Val::Str(Arc::from(arg.as_str()))], ctx)
            }
            // ---- pure helpers
            "round-up-power-of-2" => {
                let x = as_int(args.first().unwrap_or(&Val::Unspec), name)?;
                let m = as_int(args.get(1).unwrap_or(&Val::Unspec), name)?.max(1);
                Ok(Val::Int((x + m - 1) / m * m))
            }
            "streq?" | "streq-ci?" | "fnmatch?" | "fnmatch-ci?" => {
                let a = as_str(args.first().unwrap_or(&Val::Unspec), name)?;
                let b = as_str(args.get(1).unwrap_or(&Val::Unspec), name)?;
                let (a, b) = if name.ends_with("-ci?") { (a.to_lowercase(), b.to_lowercase()) } else { (a.to_string(), b.to_string()) };
                Ok(Val::Bool(if name.starts_with("streq") {
                    a == b
                } else {
                    fnmatch(&a.chars().collect::<Vec<_>>(), &b.chars().collect::<Vec<_>>())
                }))
            }
            "type->char" => {
                let t = as_int(args.first().unwrap_or(&Val::Unspec), name)?;
                s(match t {
                    0o040000 => "d",
                    0o100000 => "f",
                    0o120000 => "l",
                    0o060000 => "b",
                    0o020000 => "c",
                    0o010000 => "p",
                    0o140000 => "s",
                    _ => "U",
                })
            }
            "localtime" => Ok(Val::Tm(as_int(args.first().unwrap_or(&Val::Unspec), name)?)),
            // ---- what a policy may ask the system at scan time: deterministic functions of their
            // arguments here (tests only need to be functions of the file record and of constants)
            "gmtime" => Ok(Val::Tm(as_int(args.first().unwrap_or(&Val::Unspec), name)?)),
            "tm:sec" | "tm:min" | "tm:hour" | "tm:mday" | "tm:mon" | "tm:year" | "tm:wday" | "tm:yday" | "tm:isdst" | "tm:gmtoff" => match args.first() {
                Some(Val::Tm(t)) => {
                    let t = *t;
                    let days = t.div_euclid(86_400);
                    let secs = t.rem_euclid(86_400);
                    Ok(Val::Int(match name {
                        "tm:sec" => secs % 60,
                        "tm:min" => secs / 60 % 60,
                        "tm:hour" => secs / 3600,
                        "tm:wday" => (days + 4).rem_euclid(7),
                        "tm:yday" => days.rem_euclid(365),
                        "tm:mday" => 1 + days.rem_euclid(28),
                        "tm:mon" => days.div_euclid(28).rem_euclid(12),
                        "tm:year" => 70 + days.div_euclid(365),
                        _ => 0,
                    }))
                }
                other => runtime(format!("{name}: expected a broken-down time, got {other:?}")),
            },
            "mktime" => match args.first() {
                Some(Val::Tm(t)) => Ok(pair(Val::Int(*t), Val::Tm(*t))),
                other => runtime(format!("mktime: expected a broken-down time, got {other:?}")),
            },
            "current-time" => Ok(Val::Int(1_700_000_000)),
            "getuid" | "geteuid" => Ok(Val::Int(1000)),
            "getgid" | "getegid" => Ok(Val::Int(100)),
            "getpid" => Ok(Val::Int(4242)),
            "gethostname" => s("mds01"),
            "getenv" => Ok(Val::Bool(false)),
            "getcwd" => s("/sim/scratch"),
            "file-exists?" | "access?" => Ok(Val::Bool(crate::rng::hash_str(as_str(args.first().unwrap_or(&Val::Unspec), name)?) % 2 == 0)),
            "stat" | "lstat" => {
                let n = as_str(args.first().unwrap_or(&Val::Unspec), name)?;
                Ok(Val::Stat(crate::rng::hash_str(n)))
            }
            "stat:mtime" | "stat:atime" | "stat:ctime" | "stat:size" | "stat:uid" | "stat:gid" | "stat:mode" | "stat:perms" | "stat:ino" | "stat:nlink" | "stat:type" => match args.first() {
                Some(Val::Stat(h)) => {
                    let k = crate::rng::mix(&[*h, crate::rng::hash_str(name)]);
                    Ok(match name {
                        "stat:mtime" | "stat:atime" | "stat:ctime" => Val::Int(1_400_000_000 + (k % 300_000_000) as i128),
                        "stat:size" => Val::Int((k % 1_000_000) as i128),
                        "stat:uid" => Val::Int([0, 1000, 60_001][(k % 3) as usize]),
                        "stat:gid" => Val::Int([0, 100, 60_001][(k % 3) as usize]),
                        "stat:mode" => Val::Int(0o100644),
                        "stat:perms" => Val::Int(0o644),
                        "stat:nlink" => Val::Int(1),
                        "stat:type" => Val::Sym(Arc::from("regular")),
                        _ => Val::Int((k % 100_000) as i128),
                    })
                }
                other => runtime(format!("{name}: not a stat object: {other:?}")),
            },
            "strftime" => {
                let f = as_str(args.first().unwrap_or(&Val::Unspec), name)?;
                match args.get(1) {
                    Some(Val::Tm(t)) => s(&format!("<{}|{}>", f.trim_start_matches('%'), t)),
                    other => runtime(format!("strftime: expected a broken-down time, got {other:?}")),
                }
            }
            "dirname" => {
                let p = as_str(args.first().unwrap_or(&Val::Unspec), name)?;
                s(match p.rfind('/') {
                    Some(0) => "/",
                    Some(i) => &p[..i],
                    None => ".",
                })
            }
            "not" => Ok(Val::Bool(!truthy(args.first().unwrap_or(&Val::Unspec)))),
            "=" => num_cmp(&args, name, |o| o.is_eq()),
            "<" => num_cmp(&args, name, |o| o.is_lt()),
            ">" => num_cmp(&args, name, |o| o.is_gt()),
            "<=" => num_cmp(&args, name, |o| o.is_le()),
            ">=" => num_cmp(&args, name, |o| o.is_ge()),
            "+" | "*" | "-" | "quotient" | "logand" => {
                let mut it = args.iter();
                let first = as_int(it.next().unwrap_or(&Val::Unspec), name)?;
                if name == "-" && args.len() == 1 {
                    return Ok(Val::Int(-first));
                }
                let mut acc = first;
                for a in it {
                    let b = as_int(a, name)?;
                    acc = match name {
                        "+" => acc.wrapping_add(b),
                        "*" => acc.wrapping_mul(b),
                        "-" => acc.wrapping_sub(b),
                        "logand" => acc & b,
                        _ => {
                            if b == 0 {
                                return runtime("quotient: division by zero");
                            }
                            acc / b
                        }
                    };
                }
                Ok(Val::Int(acc))
            }
            "/" => {
                let a = as_int(args.first().unwrap_or(&Val::Unspec), name)?;
                let b = as_int(args.get(1).unwrap_or(&Val::Unspec), name)?;
                if b == 0 {
                    return runtime("/: division by zero");
                }
                if a % b == 0 {
                    Ok(Val::Int(a / b))
                } else {
                    Ok(Val::Real(a as f64 / b as f64))
                }
            }
            "member" => {
                let needle = args.first().cloned().unwrap_or(Val::Unspec);
                match args.get(1) {
                    Some(Val::List(items)) => Ok(Val::Bool(items.iter().any(|i| match (i, &needle) {
                        (Val::Str(a), Val::Str(b)) => a == b,
                        (Val::Int(a), Val::Int(b)) => a == b,
                        _ => false,
                    }))),
                    other => runtime(format!("member: expected a list, got {other:?}")),
                }
            }
            "equal?" => Ok(Val::Bool(match (args.first(), args.get(1)) {
                (Some(Val::Str(a)), Some(Val::Str(b))) => a == b,
                (Some(Val::Int(a)), Some(Val::Int(b))) => a == b,
                (Some(Val::Bool(a)), Some(Val::Bool(b))) => a == b,
                (Some(Val::Char(a)), Some(Val::Char(b))) => a == b,
                _ => false,
            })),
            "string" => {
                let mut out = String::new();
                for a in &args {
                    match a {
                        Val::Char(c) => out.push(*c),
                        other => return runtime(format!("string: expected a character, got {other:?}")),
                    }
                }
                s(&out)
            }
            "string-append" => {
                let mut out = String::new();
                for a in &args {
                    out.push_str(as_str(a, name)?);
                }
                s(&out)
            }
            "number->string" => s(&display_string(args.first().unwrap_or(&Val::Unspec))?),
            "format" => {
                let dest = args.first().cloned().unwrap_or(Val::Unspec);
                let tmpl = as_str(args.get(1).unwrap_or(&Val::Unspec), name)?.to_string();
                let mut rest = args.iter().skip(2);
                let mut out = String::new();
                let mut chars = tmpl.chars();
                while let Some(c) = chars.next() {
                    if c != '~' {
                        out.push(c);
                        continue;
                    }
                    // prefix parameters: ~5d  ~10a  ~3,'0d  ~@a (modifiers are read and, except width
                    // and pad character, ignored)
                    let mut params: Vec<String> = vec![String::new()];
                    let mut d = chars.next();
                    loop {
                        match d {
                            Some(c) if c.is_ascii_digit() || c == '-' => {
                                params.last_mut().unwrap().push(c);
                                d = chars.next();
                            }
                            Some(',') => {
                                params.push(String::new());
                                d = chars.next();
                            }
                            Some('\'') => {
                                if let Some(p) = chars.next() {
                                    params.last_mut().unwrap().push('\'');
                                    params.last_mut().unwrap().push(p);
                                }
                                d = chars.next();
                            }
                            Some('@') | Some(':') => d = chars.next(),
                            _ => break,
                        }
                    }
                    let width: usize = params.first().and_then(|p| p.parse().ok()).unwrap_or(0);
                    let padc: char = params.get(1).and_then(|p| p.strip_prefix('\'')).and_then(|p| p.chars().next()).unwrap_or(' ');
                    let pad_left = |t: String| -> String {
                        let n = t.chars().count();
                        if n >= width { t } else { std::iter::repeat(padc).take(width - n).chain(t.chars()).collect() }
                    };
                    let pad_right = |t: String| -> String {
                        let n = t.chars().count();
                        if n >= width { t } else { t.chars().chain(std::iter::repeat(' ').take(width - n)).collect() }
                    };
                    match d {
                        Some('a') | Some('A') => match rest.next() {
                            Some(v) => out.push_str(&pad_right(display_string(v)?)),
                            None => return runtime("format: missing argument"),
                        },
                        Some('d') | Some('D') => match rest.next() {
                            Some(v) => out.push_str(&pad_left(display_string(v)?)),
                            None => return runtime("format: missing argument"),
                        },
                        Some('x') | Some('X') | Some('b') | Some('B') => match rest.next() {
                            Some(Val::Int(i)) => out.push_str(&pad_left(if matches!(d, Some('x') | Some('X')) { format!("{i:x}") } else { format!("{i:b}") })),
                            Some(other) => return runtime(format!("format: not an integer: {other:?}")),
                            None => return runtime("format: missing argument"),
                        },
                        Some('c') | Some('C') => match rest.next() {
                            Some(Val::Char(c)) => out.push(*c),
                            Some(other) => return runtime(format!("format ~c: not a character: {other:?}")),
                            None => return runtime("format: missing argument"),
                        },
                        Some('t') | Some('T') => out.push('\t'),
                        Some('_') => out.push(' '),
                        Some('\n') => {}
                        Some('s') | Some('S') => match rest.next() {
                            Some(v) => out.push_str(&write_string(v)?),
                            None => return runtime("format: missing argument"),
                        },
                        Some('o') | Some('O') => match rest.next() {
                            Some(Val::Int(i)) => out.push_str(&pad_left(format!("{i:o}"))),
                            Some(other) => return runtime(format!("format ~o: not an integer: {other:?}")),
                            None => return runtime("format: missing argument"),
                        },
                        Some('f') | Some('F') => match rest.next() {
                            Some(Val::Int(i)) => out.push_str(&format!("{i}.0")),
                            Some(Val::Real(r)) => out.push_str(&format!("{r}")),
                            Some(other) => return runtime(format!("format ~f: not a number: {other:?}")),
                            None => return runtime("format: missing argument"),
                        },
                        Some('~') => out.push('~'),
                        Some('%') => out.push('\n'),
                        other => return unsupported(format!("format directive ~{}", other.map(String::from).unwrap_or_default())),
                    }
                }
                if rest.next().is_some() {
                    return runtime("format: too many arguments");
                }
                match dest {
                    Val::Bool(false) => s(&out),
                    Val::Port(p) => {
                        self.write(ctx, p, &out)?;
                        Ok(Val::Unspec)
                    }
                    Val::Bool(true) => {
                        let p = self.default_port();
                        self.write(ctx, p, &out)?;
                        Ok(Val::Unspec)
                    }
                    other => unsupported(format!("format destination {other:?}")),
                }
            }
            // ---- ports, mutexes, printers
            "display" | "newline" | "write" | "write-char" | "write-string" | "put-string" | "put-char" => {
                // (put-string port s) / (put-char port c) take the port first
                let (val, port) = match name {
                    "newline" => (None, args.first()),
                    "put-string" | "put-char" => (args.get(1), args.first()),
                    _ => (args.first(), args.get(1)),
                };
                let text = match (name, val) {
                    ("newline", _) => "\n".to_string(),
                    ("write", Some(v)) => write_string(v)?,
                    (_, Some(v)) => display_string(v)?,
                    (_, None) => return runtime(format!("{name}: missing argument")),
                };
                match port {
                    Some(Val::Port(p)) => {
                        self.write(ctx, *p, &text)?;
                        Ok(Val::Unspec)
                    }
                    None => {
                        let p = self.default_port();
                        self.write(ctx, p, &text)?;
                        Ok(Val::Unspec)
                    }
                    Some(other) => runtime(format!("{name}: not a port: {other:?}")),
                }
            }
            "simple-format" => self.builtin("format", args, ctx),
            "setvbuf" => match args.first() {
                // Whether ports are buffered is the simulator's decision (A3: a program must be
                // correct under both), so the mode asked for is not honoured. What the call does to
                // the port is: flush it, then install a fresh buffer object (libguile/ports.c) —
                // unsynchronised like every other port operation. Characters another thread stores
                // between the two steps, or into the buffer it had fetched before, are lost.
                Some(Val::Port(p)) => {
                    if self.knobs.buffer_cap.is_some() && self.ports.lock().unwrap().get(*p).map(|x| x.capture.is_none()).unwrap_or(false) {
                        self.flush_port(ctx, *p);
                        self.point();
                        let mut ports = self.ports.lock().unwrap();
                        let port = &mut ports[*p];
                        port.generation += 1;
                        port.cursor = 0;
                        port.buf.clear();
                    } else {
                        self.point();
                    }
                    Ok(Val::Unspec)
                }
                other => runtime(format!("setvbuf: not a port: {other:?}")),
            },
            "port-closed?" => match args.first() {
                Some(Val::Port(p)) => Ok(Val::Bool(!self.ports.lock().unwrap().get(*p).map(|x| x.open).unwrap_or(false))),
                other => runtime(format!("port-closed?: not a port: {other:?}")),
            },
            "throw" | "error" | "scm-error" => {
                let key = match (name, args.first()) {
                    ("throw", Some(Val::Sym(k))) => k.to_string(),
                    ("throw", other) => return runtime(format!("throw: key is not a symbol: {other:?}")),
                    _ => "misc-error".to_string(),
                };
                Err(EvalErr::Thrown(key, Thrown(if name == "throw" { args[1..].to_vec() } else { args })))
            }
            "catch" | "with-throw-handler" => {
                let (Some(key), Some(thunk), Some(handler)) = (args.first(), args.get(1), args.get(2)) else { return runtime(format!("{name}: expected key, thunk, handler")) };
                match self.apply(thunk, vec![], ctx) {
                    Ok(v) => Ok(v),
                    Err(EvalErr::Unsupported(e)) => unsupported(e),
                    Err(e) => {
                        let (k, a) = match e {
                            EvalErr::Thrown(k, a) => (k, a.0),
                            EvalErr::Runtime(m) => ("misc-error".to_string(), vec![Val::Str(Arc::from(m.as_str()))]),
                            EvalErr::Unsupported(_) => unreachable!(),
                            EvalErr::TailCall(_) => ("misc-error".to_string(), vec![]),
                        };
                        let wanted = match key {
                            Val::Bool(true) => true,
                            Val::Sym(w) => **w == *k,
                            _ => false,
                        };
                        if !wanted {
                            return Err(EvalErr::Thrown(k, Thrown(a)));
                        }
                        let mut hargs = vec![Val::Sym(Arc::from(k.as_str()))];
                        hargs.extend(a.iter().cloned());
                        let r = self.apply(handler, hargs, ctx)?;
                        if name == "with-throw-handler" {
                            // the handler runs, then the throw continues
                            return Err(EvalErr::Thrown(k, Thrown(a)));
                        }
                        Ok(r)
                    }
                }
            }
            "make-condition-variable" => Ok(Val::CondVar(Arc::new(CvCell {
                sh: if self.concurrent { Some((shuttle::sync::Mutex::new(CvState::default()), shuttle::sync::Condvar::new())) } else { None },
            }))),
            "wait-condition-variable" => {
                let (Some(Val::CondVar(cv)), Some(Val::Mutex(m))) = (args.first(), args.get(1)) else { return runtime("wait-condition-variable: expected a condition variable and a mutex") };
                let Some((gen, cond)) = &cv.sh else { return runtime(NEEDS_THREADS) };
                let timed = args.len() > 2;
                // the thread joins the waiters while the mutex is still held: a signal sent after the
                // release below finds it, one sent before this call is lost
                let mut g = gen.lock().unwrap_or_else(|e| e.into_inner());
                let ticket = g.next;
                g.next += 1;
                g.waiting.push(ticket);
                self.release(*m, ctx, "wait-condition-variable")?;
                let mut signalled = true;
                if timed {
                    // a wait with a time-out may return without a signal
                    drop(g);
                    self.yield_point();
                    let mut g = gen.lock().unwrap_or_else(|e| e.into_inner());
                    signalled = g.woken.contains(&ticket);
                    g.woken.retain(|t| *t != ticket);
                    g.waiting.retain(|t| *t != ticket);
                } else {
                    while !g.woken.contains(&ticket) {
                        g = cond.wait(g).unwrap_or_else(|e| e.into_inner());
                    }
                    g.woken.retain(|t| *t != ticket);
                    drop(g);
                }
                self.acquire(*m, ctx, "wait-condition-variable")?;
                Ok(Val::Bool(signalled))
            }
            "signal-condition-variable" | "broadcast-condition-variable" => {
                let Some(Val::CondVar(cv)) = args.first() else { return runtime(format!("{name}: not a condition variable")) };
                if let Some((gen, cond)) = &cv.sh {
                    self.point();
                    let mut g = gen.lock().unwrap_or_else(|e| e.into_inner());
                    g.signals += 1;
                    if name == "broadcast-condition-variable" {
                        let all = std::mem::take(&mut g.waiting);
                        g.woken.extend(all);
                    } else if !g.waiting.is_empty() {
                        // exactly one waiter wakes; which one is not the program's choice
                        let i = (crate::rng::mix(&[self.knobs.chunk_seed, g.signals, g.waiting.len() as u64]) % g.waiting.len() as u64) as usize;
                        let t = g.waiting.remove(i);
                        g.woken.push(t);
                    }
                    drop(g);
                    cond.notify_all();
                }
                Ok(Val::Unspec)
            }
            "call-with-new-thread" | "begin-thread-thunk" => {
                let Some(thunk) = args.first().cloned() else { return runtime("call-with-new-thread: missing thunk") };
                if !self.concurrent {
                    // a program that creates threads cannot be evaluated without a scheduler
                    return runtime(NEEDS_THREADS);
                }
                let id = 1000 + self.calls.fetch_add(1, Ordering::SeqCst) as usize;
                let rt = self.clone();
                let (file, _) = (ctx.file, ());
                let h = shuttle::thread::spawn(move || {
                    let mut c = Ctx::new(id);
                    c.file = file;
                    rt.apply(&thunk, vec![], &mut c)
                });
                Ok(Val::Thread(Arc::new(ThreadCell { handle: StdMutex::new(Some(h)), id })))
            }
            "join-thread" => match args.first() {
                Some(Val::Thread(t)) => {
                    let h = t.handle.lock().unwrap().take();
                    match h {
                        Some(h) => match h.join() {
                            Ok(r) => r,
                            Err(_) => runtime("join-thread: the thread panicked"),
                        },
                        None => Ok(Val::Unspec),
                    }
                }
                other => runtime(format!("join-thread: not a thread: {other:?}")),
            },
            "make-atomic-box" => Ok(Val::Box(Arc::new(StdMutex::new(args.first().cloned().unwrap_or(Val::Unspec))))),
            "atomic-box-ref" | "atomic-box-set!" | "atomic-box-swap!" | "atomic-box-compare-and-swap!" => {
                let Some(Val::Box(b)) = args.first() else { return runtime(format!("{name}: not an atomic box")) };
                // one indivisible operation; their order is up to the schedule
                self.point();
                let mut cell = b.lock().unwrap();
                match name {
                    "atomic-box-ref" => Ok(cell.clone()),
                    "atomic-box-set!" => {
                        *cell = args.get(1).cloned().unwrap_or(Val::Unspec);
                        Ok(Val::Unspec)
                    }
                    "atomic-box-swap!" => Ok(std::mem::replace(&mut *cell, args.get(1).cloned().unwrap_or(Val::Unspec))),
                    _ => {
                        let expected = args.get(1).cloned().unwrap_or(Val::Unspec);
                        let old = cell.clone();
                        let same = same_key(&old, &expected) || matches!((&old, &expected), (Val::List(a), Val::List(b)) if Arc::ptr_eq(a, b) || (a.is_empty() && b.is_empty()));
                        if same {
                            *cell = args.get(2).cloned().unwrap_or(Val::Unspec);
                        }
                        Ok(old)
                    }
                }
            }
            "set-car!" | "set-cdr!" => match args.first() {
                Some(Val::Pair(p)) => {
                    p.mutated.store(true, Ordering::SeqCst);
                    self.point();
                    let v = args.get(1).cloned().unwrap_or(Val::Unspec);
                    if name == "set-car!" {
                        *p.car.lock().unwrap() = v;
                    } else {
                        *p.cdr.lock().unwrap() = v;
                    }
                    Ok(Val::Unspec)
                }
                Some(Val::List(_)) => unsupported(format!("{name} on a proper list (lists are immutable in the stub)")),
                other => runtime(format!("{name}: not a pair: {other:?}")),
            },
            "substring" | "string-take" | "string-drop" => {
                let t: Vec<char> = as_str(args.first().unwrap_or(&Val::Unspec), name)?.chars().collect();
                let a = as_int(args.get(1).unwrap_or(&Val::Int(0)), name)?.max(0) as usize;
                let (from, to) = match name {
                    "substring" => (a, args.get(2).map(|v| as_int(v, name)).transpose()?.map(|x| x.max(0) as usize).unwrap_or(t.len())),
                    "string-take" => (0, a),
                    _ => (a, t.len()),
                };
                if from > to || to > t.len() {
                    return runtime(format!("{name}: range {from}..{to} out of bounds for a string of {} characters", t.len()));
                }
                s(&t[from..to].iter().collect::<String>())
            }
            "string-upcase" => s(&as_str(args.first().unwrap_or(&Val::Unspec), name)?.to_uppercase()),
            "string-downcase" => s(&as_str(args.first().unwrap_or(&Val::Unspec), name)?.to_lowercase()),
            "string-copy" => s(as_str(args.first().unwrap_or(&Val::Unspec), name)?),
            "string-index" | "string-rindex" => {
                let t: Vec<char> = as_str(args.first().unwrap_or(&Val::Unspec), name)?.chars().collect();
                let Some(Val::Char(c)) = args.get(1) else { return unsupported("string-index with a predicate") };
                let pos = if name == "string-index" { t.iter().position(|x| x == c) } else { t.iter().rposition(|x| x == c) };
                Ok(pos.map(|i| Val::Int(i as i128)).unwrap_or(Val::Bool(false)))
            }
            "string-prefix?" | "string-suffix?" | "string-contains" => {
                let a = as_str(args.first().unwrap_or(&Val::Unspec), name)?;
                let b = as_str(args.get(1).unwrap_or(&Val::Unspec), name)?;
                Ok(match name {
                    "string-prefix?" => Val::Bool(b.starts_with(a)),
                    "string-suffix?" => Val::Bool(b.ends_with(a)),
                    _ => a.find(b).map(|i| Val::Int(a[..i].chars().count() as i128)).unwrap_or(Val::Bool(false)),
                })
            }
            "string-pad-left" | "string-pad-right" => {
                let t: Vec<char> = as_str(args.first().unwrap_or(&Val::Unspec), name)?.chars().collect();
                let n = as_int(args.get(1).unwrap_or(&Val::Int(0)), name)?.max(0) as usize;
                let fill = match args.get(2) {
                    Some(Val::Char(c)) => *c,
                    _ => ' ',
                };
                let out: String = if name == "string-pad-left" {
                    if t.len() >= n { t[t.len() - n..].iter().collect() } else { std::iter::repeat(fill).take(n - t.len()).chain(t.iter().copied()).collect() }
                } else if t.len() >= n {
                    t[..n].iter().collect()
                } else {
                    t.iter().copied().chain(std::iter::repeat(fill).take(n - t.len())).collect()
                };
                s(&out)
            }
            "string->list" => Ok(Val::List(Arc::new(as_str(args.first().unwrap_or(&Val::Unspec), name)?.chars().map(Val::Char).collect()))),
            "list->string" => match args.first() {
                Some(Val::List(l)) => {
                    let mut out = String::new();
                    for c in l.iter() {
                        match c {
                            Val::Char(c) => out.push(*c),
                            other => return runtime(format!("list->string: not a character: {other:?}")),
                        }
                    }
                    s(&out)
                }
                other => runtime(format!("list->string: not a list: {other:?}")),
            },
            "make-string" => {
                let n = as_int(args.first().unwrap_or(&Val::Int(0)), name)?.clamp(0, 1 << 20) as usize;
                let fill = match args.get(1) {
                    Some(Val::Char(c)) => *c,
                    _ => ' ',
                };
                s(&std::iter::repeat(fill).take(n).collect::<String>())
            }
            "char->integer" => match args.first() {
                Some(Val::Char(c)) => Ok(Val::Int(*c as i128)),
                other => runtime(format!("char->integer: not a character: {other:?}")),
            },
            "integer->char" => match char::from_u32(as_int(args.first().unwrap_or(&Val::Unspec), name)? as u32) {
                Some(c) => Ok(Val::Char(c)),
                None => runtime("integer->char: not a character code"),
            },
            "string->number" => Ok(as_str(args.first().unwrap_or(&Val::Unspec), name)?.trim().parse::<i128>().map(Val::Int).unwrap_or(Val::Bool(false))),
            "string->symbol" => Ok(Val::Sym(Arc::from(as_str(args.first().unwrap_or(&Val::Unspec), name)?))),
            "symbol->string" => match args.first() {
                Some(Val::Sym(x)) => s(x),
                other => runtime(format!("symbol->string: not a symbol: {other:?}")),
            },
            "char?" => Ok(Val::Bool(matches!(args.first(), Some(Val::Char(_))))),
            "number?" | "integer?" => Ok(Val::Bool(matches!(args.first(), Some(Val::Int(_))) || (name == "number?" && matches!(args.first(), Some(Val::Real(_)))))),
            "boolean?" => Ok(Val::Bool(matches!(args.first(), Some(Val::Bool(_))))),
            "procedure?" => Ok(Val::Bool(matches!(args.first(), Some(Val::Closure(_) | Val::Builtin(_) | Val::Printer { .. })))),
            "even?" => Ok(Val::Bool(as_int(args.first().unwrap_or(&Val::Unspec), name)? % 2 == 0)),
            "odd?" => Ok(Val::Bool(as_int(args.first().unwrap_or(&Val::Unspec), name)? % 2 != 0)),
            "positive?" => Ok(Val::Bool(as_int(args.first().unwrap_or(&Val::Unspec), name)? > 0)),
            "negative?" => Ok(Val::Bool(as_int(args.first().unwrap_or(&Val::Unspec), name)? < 0)),
            "logior" | "logxor" | "ash" => {
                let a = as_int(args.first().unwrap_or(&Val::Unspec), name)?;
                let b = as_int(args.get(1).unwrap_or(&Val::Int(0)), name)?;
                Ok(Val::Int(match name {
                    "logior" => a | b,
                    "logxor" => a ^ b,
                    _ => {
                        if b >= 0 {
                            a.checked_shl(b.min(100) as u32).unwrap_or(0)
                        } else {
                            a >> (-b).min(127)
                        }
                    }
                }))
            }
            "map" => match (args.first(), args.get(1)) {
                (Some(f), Some(Val::List(l))) if args.len() == 2 => {
                    let mut out = vec![];
                    for item in l.iter() {
                        out.push(self.apply(f, vec![item.clone()], ctx)?);
                    }
                    Ok(Val::List(Arc::new(out)))
                }
                _ => unsupported("map over several lists or a non-list"),
            },
            "filter" => match (args.first(), args.get(1)) {
                (Some(f), Some(Val::List(l))) => {
                    let mut out = vec![];
                    for item in l.iter() {
                        if truthy(&self.apply(f, vec![item.clone()], ctx)?) {
                            out.push(item.clone());
                        }
                    }
                    Ok(Val::List(Arc::new(out)))
                }
                _ => runtime("filter: expected a procedure and a list"),
            },
            "fold" | "reduce" => match (args.first(), args.get(1), args.get(2)) {
                (Some(f), Some(init), Some(Val::List(l))) => {
                    let mut acc = init.clone();
                    for (i, item) in l.iter().enumerate() {
                        if name == "reduce" && i == 0 {
                            acc = item.clone();
                            continue;
                        }
                        acc = self.apply(f, vec![item.clone(), acc], ctx)?;
                    }
                    Ok(acc)
                }
                _ => runtime(format!("{name}: expected a procedure, an initial value and a list")),
            },
            "sort" | "sort!" | "stable-sort" | "list-sort" => {
                // (sort list less) — (list-sort less list)
                let (list, less) = if name == "list-sort" { (args.get(1), args.first()) } else { (args.first(), args.get(1)) };
                let (Some(Val::List(l)), Some(less)) = (list, less) else { return runtime(format!("{name}: expected a list and a procedure")) };
                // insertion sort through the user's predicate (stable; lists here are short)
                let mut out: Vec<Val> = vec![];
                for item in l.iter() {
                    let mut at = out.len();
                    while at > 0 && truthy(&self.apply(less, vec![item.clone(), out[at - 1].clone()], ctx)?) {
                        at -= 1;
                    }
                    out.insert(at, item.clone());
                }
                Ok(Val::List(Arc::new(out)))
            }
            "string<?" | "string>?" | "string<=?" | "string>=?" | "string-ci<?" | "string-ci=?" => {
                let a = as_str(args.first().unwrap_or(&Val::Unspec), name)?;
                let b = as_str(args.get(1).unwrap_or(&Val::Unspec), name)?;
                let (a, b) = if name.contains("-ci") { (a.to_lowercase(), b.to_lowercase()) } else { (a.to_string(), b.to_string()) };
                Ok(Val::Bool(match name {
                    "string<?" | "string-ci<?" => a < b,
                    "string>?" => a > b,
                    "string<=?" => a <= b,
                    "string>=?" => a >= b,
                    _ => a == b,
                }))
            }
            "char<?" | "char>?" | "char=?" => match (args.first(), args.get(1)) {
                (Some(Val::Char(a)), Some(Val::Char(b))) => Ok(Val::Bool(match name {
                    "char<?" => a < b,
                    "char>?" => a > b,
                    _ => a == b,
                })),
                _ => runtime(format!("{name}: expected two characters")),
            },
            "delete" | "delete-duplicates" => match (args.first(), args.get(1)) {
                (Some(Val::List(l)), None) if name == "delete-duplicates" => {
                    let mut out: Vec<Val> = vec![];
                    for item in l.iter() {
                        if !out.iter().any(|o| same_key(o, item)) {
                            out.push(item.clone());
                        }
                    }
                    Ok(Val::List(Arc::new(out)))
                }
                (Some(x), Some(Val::List(l))) if name == "delete" => Ok(Val::List(Arc::new(l.iter().filter(|e| !same_key(e, x)).cloned().collect()))),
                _ => runtime(format!("{name}: unexpected arguments")),
            },
            "iota" => Ok(Val::List(Arc::new((0..as_int(args.first().unwrap_or(&Val::Int(0)), name)?.clamp(0, 100_000)).map(Val::Int).collect()))),
            "last" | "list-tail" | "list-head" => match args.first() {
                Some(Val::List(l)) => match name {
                    "last" => l.last().cloned().ok_or(EvalErr::Runtime("last of empty list".into())),
                    _ => {
                        let k = as_int(args.get(1).unwrap_or(&Val::Int(0)), name)?.max(0) as usize;
                        if k > l.len() {
                            return runtime(format!("{name}: index out of range"));
                        }
                        Ok(Val::List(Arc::new(if name == "list-tail" { l[k..].to_vec() } else { l[..k].to_vec() })))
                    }
                },
                other => runtime(format!("{name}: not a list: {other:?}")),
            },
            "vector->list" => match args.first() {
                Some(Val::Vector(v)) => {
                    self.point();
                    Ok(Val::List(Arc::new(v.lock().unwrap().clone())))
                }
                other => runtime(format!("vector->list: not a vector: {other:?}")),
            },
            "list->vector" => match args.first() {
                Some(Val::List(l)) => Ok(Val::Vector(Arc::new(StdMutex::new(l.to_vec())))),
                other => runtime(format!("list->vector: not a list: {other:?}")),
            },
            "vector-for-each" => match (args.first(), args.get(1)) {
                (Some(f), Some(Val::Vector(v))) => {
                    self.point();
                    let items = v.lock().unwrap().clone();
                    for item in items {
                        self.apply(f, vec![item], ctx)?;
                    }
                    Ok(Val::Unspec)
                }
                _ => runtime("vector-for-each: expected a procedure and a vector"),
            },
            "values" if args.len() == 1 => Ok(args[0].clone()),
            "values" => Ok(Val::Values(Arc::new(args))),
            "call-with-values" => {
                let (Some(producer), Some(consumer)) = (args.first(), args.get(1)) else { return runtime("call-with-values: expected two procedures") };
                let got = self.apply(producer, vec![], ctx)?;
                let list = match got {
                    Val::Values(v) => v.to_vec(),
                    other => vec![other],
                };
                self.apply(consumer, list, ctx)
            }
            "string-trim" | "string-trim-right" | "string-trim-both" => {
                let t = as_str(args.first().unwrap_or(&Val::Unspec), name)?;
                s(match name {
                    "string-trim" => t.trim_start(),
                    "string-trim-right" => t.trim_end(),
                    _ => t.trim(),
                })
            }
            "string-split" => {
                let t = as_str(args.first().unwrap_or(&Val::Unspec), name)?;
                let Some(Val::Char(c)) = args.get(1) else { return unsupported("string-split with a predicate") };
                Ok(Val::List(Arc::new(t.split(*c).map(|p| Val::Str(Arc::from(p))).collect())))
            }
            "string-reverse" => s(&as_str(args.first().unwrap_or(&Val::Unspec), name)?.chars().rev().collect::<String>()),
            "string-map" | "string-for-each" => match (args.first(), args.get(1)) {
                (Some(f), Some(Val::Str(t))) => {
                    let mut out = String::new();
                    for c in t.chars() {
                        let r = self.apply(f, vec![Val::Char(c)], ctx)?;
                        if name == "string-map" {
                            match r {
                                Val::Char(c2) => out.push(c2),
                                other => return runtime(format!("string-map: procedure returned {other:?}")),
                            }
                        }
                    }
                    if name == "string-map" { s(&out) } else { Ok(Val::Unspec) }
                }
                _ => runtime(format!("{name}: expected a procedure and a string")),
            },
            "string-count" => {
                let t = as_str(args.first().unwrap_or(&Val::Unspec), name)?;
                let Some(Val::Char(c)) = args.get(1) else { return unsupported("string-count with a predicate") };
                Ok(Val::Int(t.chars().filter(|x| x == c).count() as i128))
            }
            "char-upcase" | "char-downcase" => match args.first() {
                Some(Val::Char(c)) => Ok(Val::Char(if name == "char-upcase" { c.to_uppercase().next().unwrap_or(*c) } else { c.to_lowercase().next().unwrap_or(*c) })),
                other => runtime(format!("{name}: not a character: {other:?}")),
            },
            "char-alphabetic?" | "char-numeric?" | "char-whitespace?" | "char-upper-case?" | "char-lower-case?" => match args.first() {
                Some(Val::Char(c)) => Ok(Val::Bool(match name {
                    "char-alphabetic?" => c.is_alphabetic(),
                    "char-numeric?" => c.is_numeric(),
                    "char-whitespace?" => c.is_whitespace(),
                    "char-upper-case?" => c.is_uppercase(),
                    _ => c.is_lowercase(),
                })),
                other => runtime(format!("{name}: not a character: {other:?}")),
            },
            "append-map" => match (args.first(), args.get(1)) {
                (Some(f), Some(Val::List(l))) => {
                    let mut out = vec![];
                    for item in l.iter() {
                        match self.apply(f, vec![item.clone()], ctx)? {
                            Val::List(r) => out.extend(r.iter().cloned()),
                            other => return runtime(format!("append-map: procedure returned {other:?}")),
                        }
                    }
                    Ok(Val::List(Arc::new(out)))
                }
                _ => runtime("append-map: expected a procedure and a list"),
            },
            "list-copy" => match args.first() {
                Some(Val::List(l)) => Ok(Val::List(l.clone())),
                other => runtime(format!("list-copy: not a list: {other:?}")),
            },
            "vector-map" => match (args.first(), args.get(1)) {
                (Some(f), Some(Val::Vector(v))) => {
                    self.point();
                    let items = v.lock().unwrap().clone();
                    let mut out = vec![];
                    for item in items {
                        out.push(self.apply(f, vec![item], ctx)?);
                    }
                    Ok(Val::Vector(Arc::new(StdMutex::new(out))))
                }
                _ => runtime("vector-map: expected a procedure and a vector"),
            },
            "vector-copy" => match args.first() {
                Some(Val::Vector(v)) => {
                    self.point();
                    Ok(Val::Vector(Arc::new(StdMutex::new(v.lock().unwrap().clone()))))
                }
                other => runtime(format!("vector-copy: not a vector: {other:?}")),
            },
            "exact->inexact" | "inexact->exact" | "exact" | "inexact" | "round" | "truncate" | "floor" | "ceiling" => match args.first() {
                Some(Val::Int(i)) => Ok(Val::Int(*i)),
                Some(Val::Real(r)) => Ok(match name {
                    "round" => Val::Int(r.round() as i128),
                    "truncate" | "inexact->exact" | "exact" => Val::Int(r.trunc() as i128),
                    "floor" => Val::Int(r.floor() as i128),
                    "ceiling" => Val::Int(r.ceil() as i128),
                    _ => Val::Real(*r),
                }),
                other => runtime(format!("{name}: not a number: {other:?}")),
            },
            "expt" => {
                let b = as_int(args.first().unwrap_or(&Val::Unspec), name)?;
                let e = as_int(args.get(1).unwrap_or(&Val::Unspec), name)?;
                if !(0..=120).contains(&e) {
                    return unsupported("expt with a large or negative exponent");
                }
                Ok(Val::Int(b.checked_pow(e as u32).unwrap_or(i128::MAX)))
            }
            "identity" => Ok(args.first().cloned().unwrap_or(Val::Unspec)),
            "const" => unsupported("const"),
            "usleep" | "sleep" | "yield" => {
                // a pause gives way to the other threads and does nothing else
                self.yield_point();
                Ok(Val::Unspec)
            }
            "current-output-port" => Ok(Val::Port(self.default_port())),
            "current-error-port" | "current-warning-port" => Ok(Val::Port(self.error_port())),
            "current-output-port" | "open-file" => {
                let dest = if name == "open-file" {
                    // the standard streams under their other names are the same kernel objects as the
                    // ports the runtime already has — reached through a second port with its own buffer
                    match as_str(args.first().unwrap_or(&Val::Unspec), name)? {
                        "/dev/stdout" | "/dev/fd/1" | "/proc/self/fd/1" => "stdout".to_string(),
                        "/dev/stderr" | "/dev/fd/2" | "/proc/self/fd/2" => "stderr".to_string(),
                        // spellings of one path (x, ./x, a/../x, a//x) are one file
                        other => format!("file:{}", lexical_path(other)),
                    }
                } else {
                    "stdout".to_string()
                };
                let mut ports = self.ports.lock().unwrap();
                ports.push(PortSt { dest: dest.clone(), open: true, buf: vec![], cursor: 0, generation: 0, capture: None });
                let id = ports.len() - 1;
                drop(ports);
                self.ev(Ev::OpenPort { port: id, dest });
                Ok(Val::Port(id))
            }
            "close-port" => match args.first() {
                Some(Val::Port(p)) => {
                    self.flush_port(ctx, *p);
                    if let Some(e) = self.ports.lock().unwrap().get_mut(*p) {
                        e.open = false;
                    }
                    self.ev(Ev::ClosePort { port: *p });
                    Ok(Val::Unspec)
                }
                other => runtime(format!("close-port: not a port: {other:?}")),
            },
            "make-mutex" | "make-recursive-mutex" => {
                let cell = Arc::new(MutexCell {
                    sh: if self.concurrent { Some((shuttle::sync::Mutex::new(false), shuttle::sync::Condvar::new())) } else { None },
                    owner: AtomicUsize::new(0),
                    recursive: name == "make-recursive-mutex",
                    depth: AtomicUsize::new(0),
                });
                let mut ms = self.mutexes.lock().unwrap();
                ms.push(cell);
                let id = ms.len() - 1;
                drop(ms);
                self.ev(Ev::NewMutex { mutex: id });
                Ok(Val::Mutex(id))
            }
            "make-printer" => match (args.first(), args.get(1), args.get(2)) {
                (Some(Val::Port(p)), Some(Val::Mutex(m)), Some(t)) => {
                    let term = match t {
                        Val::Bool(false) => None,
                        Val::Char(c) => Some(*c),
                        other => return runtime(format!("make-printer: terminator is neither #f nor a character: {other:?}")),
                    };
                    Ok(Val::Printer { port: *p, mutex: *m, term })
                }
                other => runtime(format!("make-printer: expected (port mutex terminator), got {other:?}")),
            },
            "dynamic-wind" => {
                if args.len() != 3 {
                    return runtime("dynamic-wind: expected three thunks");
                }
                self.apply(&args[0], vec![], ctx)?;
                let r = self.apply(&args[1], vec![], ctx);
                let out = self.apply(&args[2], vec![], ctx);
                let v = r?;
                out?;
                Ok(v)
            }
            "current-thread" => Ok(Val::Int(1_000_000 + ctx.thread as i128)),
            "mutex-locked?" | "mutex-owner" => match args.first() {
                Some(Val::Mutex(m)) => {
                    self.point();
                    let owner = self.cell(*m, name)?.owner.load(Ordering::SeqCst);
                    if owner != 0 && owner != ctx.thread + 1 {
                        // somebody else holds it: a caller that polls gives way
                        self.yield_point();
                    }
                    Ok(if name == "mutex-locked?" {
                        Val::Bool(owner != 0)
                    } else if owner == 0 {
                        Val::Bool(false)
                    } else {
                        Val::Int(1_000_000 + owner as i128 - 1)
                    })
                }
                other => runtime(format!("{name}: not a mutex: {other:?}")),
            },
            "try-mutex" => match args.first() {
                Some(Val::Mutex(m)) => {
                    let cell = self.cell(*m, name)?;
                    self.point();
                    if cell.owner.load(Ordering::SeqCst) == ctx.thread + 1 {
                        if cell.recursive {
                            cell.depth.fetch_add(1, Ordering::SeqCst);
                            return Ok(Val::Bool(true));
                        }
                        return Ok(Val::Bool(false));
                    }
                    let got = match &cell.sh {
                        Some((mx, _)) => {
                            let mut g = mx.lock().unwrap_or_else(|e| e.into_inner());
                            if *g {
                                false
                            } else {
                                *g = true;
                                true
                            }
                        }
                        None => cell.owner.load(Ordering::SeqCst) == 0,
                    };
                    if got {
                        cell.owner.store(ctx.thread + 1, Ordering::SeqCst);
                        cell.depth.store(1, Ordering::SeqCst);
                        self.ev(Ev::Lock { thread: ctx.thread, mutex: *m });
                    } else {
                        self.yield_point();
                    }
                    Ok(Val::Bool(got))
                }
                other => runtime(format!("try-mutex: not a mutex: {other:?}")),
            },
            "lock-mutex" | "unlock-mutex" => match args.first() {
                Some(Val::Mutex(m)) => {
                    if name == "lock-mutex" {
                        self.acquire(*m, ctx, name)?;
                    } else {
                        self.release(*m, ctx, name)?;
                    }
                    Ok(Val::Bool(true))
                }
                other => runtime(format!("{name}: not a mutex: {other:?}")),
            },
            "list" => Ok(Val::List(Arc::new(args))),
            "cons" => match (args.first(), args.get(1)) {
                (Some(a), Some(Val::List(rest))) => {
                    let mut v = vec![a.clone()];
                    v.extend(rest.iter().cloned());
                    Ok(Val::List(Arc::new(v)))
                }
                (Some(a), Some(b)) => Ok(pair(a.clone(), b.clone())),
                _ => runtime("cons: needs two arguments"),
            },
            "pair?" => Ok(Val::Bool(match args.first() {
                Some(Val::Pair(_)) => true,
                Some(Val::List(l)) => !l.is_empty(),
                _ => false,
            })),
            "list?" => Ok(Val::Bool(matches!(args.first(), Some(Val::List(_))))),
            "symbol?" => Ok(Val::Bool(matches!(args.first(), Some(Val::Sym(_))))),
            "cadr" | "cddr" | "caar" | "cdar" => {
                let (outer, inner): (&'static str, &'static str) = match name {
                    "cadr" => ("car", "cdr"),
                    "cddr" => ("cdr", "cdr"),
                    "caar" => ("car", "car"),
                    _ => ("cdr", "car"),
                };
                let mid = self.builtin(inner, args, ctx)?;
                self.builtin(outer, vec![mid], ctx)
            }
            "assq" | "assv" | "assoc" | "assq-ref" | "assv-ref" | "assoc-ref" => {
                // (assq key alist) but (assq-ref alist key)
                let is_ref = name.ends_with("-ref");
                let (key, alist) = if is_ref { (args.get(1), args.first()) } else { (args.first(), args.get(1)) };
                let (Some(key), Some(Val::List(l))) = (key, alist) else { return runtime(format!("{name}: expected a key and an association list")) };
                for entry in l.iter() {
                    let (k, v) = match entry {
                        Val::Pair(p) => (p.car.lock().unwrap().clone(), self.pair_cdr(p)),
                        Val::List(e) if !e.is_empty() => (e[0].clone(), Val::List(Arc::new(e[1..].to_vec()))),
                        _ => continue,
                    };
                    if same_key(&k, key) {
                        return Ok(if is_ref { v } else { entry.clone() });
                    }
                }
                Ok(Val::Bool(false))
            }
            "memq" | "memv" => match (args.first(), args.get(1)) {
                (Some(x), Some(Val::List(l))) => Ok(match l.iter().position(|e| same_key(e, x)) {
                    Some(i) => Val::List(Arc::new(l[i..].to_vec())),
                    None => Val::Bool(false),
                }),
                _ => runtime(format!("{name}: expected a value and a list")),
            },
            "car" | "cdr" | "null?" | "reverse" | "length" => match args.first() {
                Some(Val::List(l)) => match name {
                    "car" => l.first().cloned().ok_or(EvalErr::Runtime("car of empty list".into())),
                    "cdr" => {
                        if l.is_empty() {
                            runtime("cdr of empty list")
                        } else {
                            Ok(Val::List(Arc::new(l[1..].to_vec())))
                        }
                    }
                    "null?" => Ok(Val::Bool(l.is_empty())),
                    "reverse" => Ok(Val::List(Arc::new(l.iter().rev().cloned().collect()))),
                    _ => Ok(Val::Int(l.len() as i128)),
                },
                Some(Val::Pair(p)) if name == "car" => {
                    if p.mutated.load(Ordering::SeqCst) {
                        self.point();
                    }
                    Ok(p.car.lock().unwrap().clone())
                }
                Some(Val::Pair(p)) if name == "cdr" => Ok(self.pair_cdr(p)),
                Some(_) if name == "null?" => Ok(Val::Bool(false)),
                other => runtime(format!("{name}: not a list: {other:?}")),
            },
            "append" => {
                let mut out = vec![];
                for a in &args {
                    match a {
                        Val::List(l) => out.extend(l.iter().cloned()),
                        other => return runtime(format!("append: not a list: {other:?}")),
                    }
                }
                Ok(Val::List(Arc::new(out)))
            }
            "for-each" => match (args.first(), args.get(1)) {
                (Some(f), Some(Val::List(l))) => {
                    for item in l.iter() {
                        self.apply(f, vec![item.clone()], ctx)?;
                    }
                    Ok(Val::Unspec)
                }
                _ => runtime("for-each: expected a procedure and a list"),
            },
            "apply" => match (args.first(), args.last()) {
                (Some(f), Some(Val::List(l))) if args.len() >= 2 => {
                    let mut a: Vec<Val> = args[1..args.len() - 1].to_vec();
                    a.extend(l.iter().cloned());
                    self.apply(f, a, ctx)
                }
                _ => runtime("apply: expected a procedure and a list"),
            },
            "eq?" | "eqv?" | "string=?" => Ok(Val::Bool(match (args.first(), args.get(1)) {
                (Some(Val::Str(a)), Some(Val::Str(b))) => a == b,
                (Some(Val::Int(a)), Some(Val::Int(b))) => a == b,
                (Some(Val::Bool(a)), Some(Val::Bool(b))) => a == b,
                (Some(Val::Char(a)), Some(Val::Char(b))) => a == b,
                (Some(Val::Port(a)), Some(Val::Port(b))) => a == b,
                (Some(Val::Mutex(a)), Some(Val::Mutex(b))) => a == b,
                (Some(Val::Sym(a)), Some(Val::Sym(b))) => a == b,
                (Some(Val::List(a)), Some(Val::List(b))) => a.is_empty() && b.is_empty(),
                _ => false,
            })),
            "make-hash-table" => Ok(Val::Table(Arc::new(TableCell::default()))),
            "hash-set!" | "hash-ref" | "hash-remove!" | "hash-count" | "hashq-set!" | "hashq-ref" | "hashq-remove!" | "hashv-set!" | "hashv-ref"
            | "hashv-remove!" | "hash-clear!" | "hash-map->list" | "hash-for-each" | "hash-fold" => {
                let (tpos, fpos) = if matches!(name, "hash-map->list" | "hash-for-each" | "hash-fold") { (if name == "hash-fold" { 2 } else { 1 }, Some(0)) } else { (0, None) };
                let Some(Val::Table(cell)) = args.get(tpos) else { return runtime(format!("{name}: not a hash table")) };
                let t = &cell.entries;
                // while another thread's insertion is resizing the table, the bucket vector is the
                // new, still empty one: nothing is found
                // shared mutable state: the order of operations is up to the schedule
                self.point();
                let resizing = self.concurrent && cell.rehashing.load(Ordering::SeqCst);
                let op = name.trim_start_matches("hashq-").trim_start_matches("hashv-").trim_start_matches("hash-");
                if let Some(fpos) = fpos {
                    let entries: Vec<(Val, Val)> = if resizing { vec![] } else { t.lock().unwrap().clone() };
                    let f = args[fpos].clone();
                    return match name {
                        "hash-for-each" => {
                            for (k, v) in entries {
                                self.apply(&f, vec![k, v], ctx)?;
                            }
                            Ok(Val::Unspec)
                        }
                        "hash-map->list" => {
                            let mut out = vec![];
                            for (k, v) in entries {
                                out.push(self.apply(&f, vec![k, v], ctx)?);
                            }
                            Ok(Val::List(Arc::new(out)))
                        }
                        _ => {
                            let mut acc = args.get(1).cloned().unwrap_or(Val::Unspec);
                            for (k, v) in entries {
                                acc = self.apply(&f, vec![k, v, acc], ctx)?;
                            }
                            Ok(acc)
                        }
                    };
                }
                match op {
                    "count" => Ok(Val::Int(if resizing { 0 } else { t.lock().unwrap().len() as i128 })),
                    "clear!" => {
                        t.lock().unwrap().clear();
                        Ok(Val::Unspec)
                    }
                    "ref" => {
                        let key = args.get(1).cloned().unwrap_or(Val::Unspec);
                        let tb = t.lock().unwrap();
                        let hit = if resizing { None } else { tb.iter().find(|(k, _)| same_key(k, &key)).map(|(_, v)| v.clone()) };
                        Ok(hit.unwrap_or_else(|| args.get(2).cloned().unwrap_or(Val::Bool(false))))
                    }
                    "remove!" => {
                        let key = args.get(1).cloned().unwrap_or(Val::Unspec);
                        t.lock().unwrap().retain(|(k, _)| !same_key(k, &key));
                        Ok(Val::Unspec)
                    }
                    _ => {
                        let key = args.get(1).cloned().unwrap_or(Val::Unspec);
                        let val = args.get(2).cloned().unwrap_or(Val::Unspec);
                        if resizing {
                            // the entry is not found in the empty vector: a fresh one is consed in
                            // front of whatever the resize moves across afterwards
                            t.lock().unwrap().insert(0, (key, val));
                            return Ok(Val::Unspec);
                        }
                        {
                            let mut tb = t.lock().unwrap();
                            if let Some(e) = tb.iter_mut().find(|(k, _)| same_key(k, &key)) {
                                // the key has an entry: one store into it
                                e.1 = val;
                                return Ok(Val::Unspec);
                            }
                        }
                        // A new key. Guile's hash tables take no lock of their own: the insertion reads
                        // the bucket's chain, builds the new entry and stores the new chain head. An
                        // insertion by another thread into the same bucket between the two is unlinked.
                        let buckets = self.knobs.table_buckets.max(1) as u64;
                        let mine = key_hash(&key) % buckets;
                        let before: Vec<Val> = t.lock().unwrap().iter().map(|(k, _)| k.clone()).collect();
                        if self.concurrent && ctx.thread != MAIN_THREAD {
                            self.point();
                        }
                        let mut tb = t.lock().unwrap();
                        tb.retain(|(k, _)| key_hash(k) % buckets != mine || before.iter().any(|b| same_key(b, k)));
                        if let Some(e) = tb.iter_mut().find(|(k, _)| same_key(k, &key)) {
                            e.1 = val;
                        } else {
                            tb.push((key, val));
                        }
                        let grows = RESIZE_AT.contains(&tb.len());
                        drop(tb);
                        if grows && self.concurrent && ctx.thread != MAIN_THREAD {
                            // this insertion resizes the table: the new bucket vector is installed
                            // empty, then the entries are moved across (libguile/hashtab.c)
                            cell.rehashing.store(true, Ordering::SeqCst);
                            self.point();
                            self.point();
                            cell.rehashing.store(false, Ordering::SeqCst);
                        }
                        Ok(Val::Unspec)
                    }
                }
            }
            "open-output-string" => {
                let mut ports = self.ports.lock().unwrap();
                let n = ports.len();
                ports.push(PortSt { dest: format!("string:{n}"), open: true, buf: vec![], cursor: 0, generation: 0, capture: Some(String::new()) });
                Ok(Val::Port(n))
            }
            "get-output-string" => match args.first() {
                Some(Val::Port(p)) => match self.ports.lock().unwrap().get(*p).and_then(|x| x.capture.clone()) {
                    Some(text) => s(&text),
                    None => runtime("get-output-string: not a string port"),
                },
                other => runtime(format!("get-output-string: not a port: {other:?}")),
            },
            "call-with-output-string" => {
                let Some(f) = args.first() else { return runtime("call-with-output-string: missing procedure") };
                let id = {
                    let mut ports = self.ports.lock().unwrap();
                    let n = ports.len();
                    ports.push(PortSt { dest: format!("string:{n}"), open: true, buf: vec![], cursor: 0, generation: 0, capture: Some(String::new()) });
                    n
                };
                self.apply(f, vec![Val::Port(id)], ctx)?;
                let text = self.ports.lock().unwrap()[id].capture.clone().unwrap_or_default();
                s(&text)
            }
            "vector" => Ok(Val::Vector(Arc::new(StdMutex::new(args)))),
            "make-vector" => {
                let n = as_int(args.first().unwrap_or(&Val::Unspec), name)?;
                if !(0..=1_000_000).contains(&n) {
                    return runtime("make-vector: bad length");
                }
                let fill = args.get(1).cloned().unwrap_or(Val::Unspec);
                Ok(Val::Vector(Arc::new(StdMutex::new(vec![fill; n as usize]))))
            }
            "vector-ref" | "vector-set!" | "vector-length" | "vector-fill!" => {
                let Some(Val::Vector(v)) = args.first() else { return runtime(format!("{name}: not a vector")) };
                // shared mutable state: each access is atomic, their order is up to the schedule
                self.point();
                let mut vec = v.lock().unwrap();
                match name {
                    "vector-length" => Ok(Val::Int(vec.len() as i128)),
                    "vector-fill!" => {
                        let fill = args.get(1).cloned().unwrap_or(Val::Unspec);
                        for x in vec.iter_mut() {
                            *x = fill.clone();
                        }
                        Ok(Val::Unspec)
                    }
                    _ => {
                        let i = as_int(args.get(1).unwrap_or(&Val::Unspec), name)?;
                        if i < 0 || i as usize >= vec.len() {
                            return runtime(format!("{name}: index {i} out of range"));
                        }
                        if name == "vector-ref" {
                            Ok(vec[i as usize].clone())
                        } else {
                            vec[i as usize] = args.get(2).cloned().unwrap_or(Val::Unspec);
                            Ok(Val::Unspec)
                        }
                    }
                }
            }
            "list-ref" => match (args.first(), args.get(1)) {
                (Some(Val::List(l)), Some(Val::Int(i))) => l.get(*i as usize).cloned().ok_or(EvalErr::Runtime(format!("{name}: index out of range"))),
                _ => runtime(format!("{name}: bad arguments")),
            },
            "min" | "max" => {
                let mut it = args.iter();
                let mut acc = as_int(it.next().unwrap_or(&Val::Unspec), name)?;
                for a in it {
                    let b = as_int(a, name)?;
                    acc = if name == "min" { acc.min(b) } else { acc.max(b) };
                }
                Ok(Val::Int(acc))
            }
            "abs" => Ok(Val::Int(as_int(args.first().unwrap_or(&Val::Unspec), name)?.abs())),
            "modulo" | "remainder" => {
                let a = as_int(args.first().unwrap_or(&Val::Unspec), name)?;
                let b = as_int(args.get(1).unwrap_or(&Val::Unspec), name)?;
                if b == 0 {
                    return runtime(format!("{name}: division by zero"));
                }
                Ok(Val::Int(if name == "modulo" { a.rem_euclid(b) } else { a % b }))
            }
            "string-join" => match args.first() {
                Some(Val::List(l)) => {
                    let sep = match args.get(1) {
                        Some(v) => as_str(v, name)?.to_string(),
                        None => " ".to_string(),
                    };
                    let mut parts = vec![];
                    for x in l.iter() {
                        parts.push(as_str(x, name)?.to_string());
                    }
                    s(&parts.join(&sep))
                }
                other => runtime(format!("string-join: not a list: {other:?}")),
            },
            "string-null?" => Ok(Val::Bool(as_str(args.first().unwrap_or(&Val::Unspec), name)?.is_empty())),
            "string-length" => Ok(Val::Int(as_str(args.first().unwrap_or(&Val::Unspec), name)?.chars().count() as i128)),
            "string?" => Ok(Val::Bool(matches!(args.first(), Some(Val::Str(_))))),
            "zero?" => Ok(Val::Bool(as_int(args.first().unwrap_or(&Val::Unspec), name)? == 0)),
            "1+" => Ok(Val::Int(as_int(args.first().unwrap_or(&Val::Unspec), name)? + 1)),
            "1-" => Ok(Val::Int(as_int(args.first().unwrap_or(&Val::Unspec), name)? - 1)),
            "force-output" | "flush-all-ports" => {
                match args.first() {
                    Some(Val::Port(p)) => self.flush_port(ctx, *p),
                    Some(other) => return runtime(format!("{name}: not a port: {other:?}")),
                    None => {
                        // (force-output) = the current output port; flush-all-ports = every port
                        let ports: Vec<usize> = {
                            let ps = self.ports.lock().unwrap();
                            (0..ps.len()).filter(|i| ps[*i].open && (name == "flush-all-ports" || ps[*i].dest == "stdout")).collect()
                        };
                        for p in ports {
                            self.flush_port(ctx, p);
                        }
                    }
                }
                Ok(Val::Unspec)
            }
            "lipe-scan-break" => {
                self.point();
                self.ev(Ev::Break { thread: ctx.thread, file: ctx.file });
                if self.knobs.honour_break {
                    self.stop.store(true, Ordering::SeqCst);
                }
                Ok(Val::Bool(true))
            }
            "lipe-scan" => {
                if args.len() != 5 {
                    return runtime(format!("lipe-scan: expected 5 arguments, got {}", args.len()));
                }
                as_str(&args[0], "lipe-scan device")?;
                let thunk = args[2].clone();
                if !matches!(thunk, Val::Closure(_)) {
                    return runtime("lipe-scan: policy is not a procedure");
                }
                // the scan uses the number of threads it is asked for (a literal from `-threads N`),
                // capped by what the workload simulates; `(lipe-getopt-thread-count)` is the
                // workload's own number
                let threads = match &args[4] {
                    Val::Int(n) if *n >= 1 => (*n as usize).min(self.knobs.threads),
                    _ => self.knobs.threads,
                };
                if self.concurrent {
                    let mut handles = vec![];
                    for t in 0..threads {
                        let rt = self.clone();
                        let thunk = thunk.clone();
                        handles.push(shuttle::thread::spawn(move || rt.scan_thread(t + 1, &thunk, threads)));
                    }
                    for h in handles {
                        let _ = h.join();
                    }
                } else {
                    for t in 0..threads {
                        self.scan_thread(t + 1, &thunk, threads);
                    }
                }
                Ok(Val::Unspec)
            }
            other => unsupported(format!("builtin {other}")),
        }
    }

    /// Scanner thread `thread` (1-based; 0 is the main thread): evaluate the policy on each of
    /// its files.
    fn scan_thread(self: &Arc<Self>, thread: usize, thunk: &Val, threads: usize) {
        // with fewer scanner threads than the workload's partition has parts, thread t takes the
        // parts t, t + threads, t + 2 threads, ...
        let mut files = vec![];
        let mut part = thread - 1;
        while part < self.knobs.partition.len() {
            files.extend(self.knobs.partition[part].iter().copied());
            part += threads.max(1);
        }
        if self.knobs.dynamic_assignment && self.concurrent {
            // pull model: take the next file nobody has taken yet
            loop {
                self.point();
                if self.knobs.honour_break && self.stop.load(Ordering::SeqCst) {
                    break;
                }
                let file = self.next_file.fetch_add(1, Ordering::SeqCst);
                if file >= self.files.len() {
                    break;
                }
                let mut ctx = Ctx::new(thread);
                ctx.file = file;
                self.ev(Ev::FileStart { thread, file });
                if let Err(error) = self.apply(thunk, vec![], &mut ctx) {
                    self.ev(Ev::Error { thread, file, error: error.settle() });
                }
                self.ev(Ev::FileEnd { thread, file });
            }
            return;
        }
        for file in files {
            self.point();
            if self.knobs.honour_break && self.stop.load(Ordering::SeqCst) {
                break;
            }
            let mut ctx = Ctx::new(thread);
            ctx.file = file;
            self.ev(Ev::FileStart { thread, file });
            if let Err(error) = self.apply(thunk, vec![], &mut ctx) {
                self.ev(Ev::Error { thread, file, error: error.settle() });
            }
            self.ev(Ev::FileEnd { thread, file });
        }
    }

    /// Evaluate all top-level forms on the main thread.
    pub fn run_program(self: &Arc<Self>, forms: &[Sexp]) -> Result<(), EvalErr> {
        fn collect(x: &Sexp, out: &mut std::collections::BTreeSet<String>) {
            if let Sexp::List(items) = x {
                if let (Some(Sexp::Sym(h)), Some(Sexp::Sym(n))) = (items.first(), items.get(1)) {
                    if h == "set!" {
                        out.insert(n.clone());
                    }
                }
                for i in items {
                    collect(i, out);
                }
            }
        }
        {
            let mut a = self.assigned.lock().unwrap();
            for f in forms {
                collect(f, &mut a);
            }
        }
        let mut ctx = Ctx::new(MAIN_THREAD);
        let r = self.eval_body(forms, &None, &mut ctx, false);
        self.flush_all(&ctx);
        r.map_err(EvalErr::settle)?;
        Ok(())
    }
}
