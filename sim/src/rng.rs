//! The only source of randomness of the simulator: SplitMix64 for seeding and stream
//! splitting, xoshiro256** for draws. No dependency on any crate's stream definition, so a
//! seed means the same execution for as long as this file does not change.

#[inline]
pub fn splitmix(x: &mut u64) -> u64 {
    *x = x.wrapping_add(0x9E37_79B9_7F4A_7C15);
    let mut z = *x;
    z = (z ^ (z >> 30)).wrapping_mul(0xBF58_476D_1CE4_E5B9);
    z = (z ^ (z >> 27)).wrapping_mul(0x94D0_49BB_1331_11EB);
    z ^ (z >> 31)
}

/// Mix several words into one (used to derive independent streams: root seed, property, run).
pub fn mix(words: &[u64]) -> u64 {
    let mut s = 0x243F_6A88_85A3_08D3u64;
    for w in words {
        s ^= *w;
        let _ = splitmix(&mut s);
        s = s.rotate_left(23) ^ splitmix(&mut s);
    }
    splitmix(&mut s)
}

pub fn hash_str(s: &str) -> u64 {
    // FNV-1a, then one splitmix round
    let mut h = 0xcbf2_9ce4_8422_2325u64;
    for b in s.as_bytes() {
        h ^= *b as u64;
        h = h.wrapping_mul(0x0000_0100_0000_01B3);
    }
    let mut x = h;
    splitmix(&mut x)
}

#[derive(Clone, Debug)]
pub struct Rng {
    s: [u64; 4],
}

impl Rng {
    pub fn new(seed: u64) -> Self {
        let mut x = seed;
        let s = [splitmix(&mut x), splitmix(&mut x), splitmix(&mut x), splitmix(&mut x)];
        Rng { s }
    }

    pub fn next_u64(&mut self) -> u64 {
        let r = self.s[1].wrapping_mul(5).rotate_left(7).wrapping_mul(9);
        let t = self.s[1] << 17;
        self.s[2] ^= self.s[0];
        self.s[3] ^= self.s[1];
        self.s[1] ^= self.s[2];
        self.s[0] ^= self.s[3];
        self.s[2] ^= t;
        self.s[3] = self.s[3].rotate_left(45);
        r
    }

    /// Uniform in 0..n (n > 0). Modulo bias is irrelevant at these sizes.
    pub fn below(&mut self, n: u64) -> u64 {
        debug_assert!(n > 0);
        self.next_u64() % n
    }

    pub fn usize_below(&mut self, n: usize) -> usize {
        self.below(n as u64) as usize
    }

    /// Uniform in lo..=hi
    pub fn range(&mut self, lo: u64, hi: u64) -> u64 {
        lo + self.below(hi - lo + 1)
    }

    /// True with probability num/den
    pub fn chance(&mut self, num: u64, den: u64) -> bool {
        self.below(den) < num
    }

    pub fn pick<'a, T>(&mut self, items: &'a [T]) -> &'a T {
        &items[self.usize_below(items.len())]
    }

    pub fn shuffle<T>(&mut self, items: &mut [T]) {
        for i in (1..items.len()).rev() {
            let j = self.usize_below(i + 1);
            items.swap(i, j);
        }
    }

    /// A child stream that does not disturb this one beyond one draw.
    pub fn fork(&mut self) -> Rng {
        Rng::new(self.next_u64())
    }
}

/// Order-sensitive 64-bit digest used for event logs.
#[derive(Clone, Debug)]
pub struct Digest(pub u64);

impl Digest {
    pub fn new() -> Self {
        Digest(0x6A09_E667_F3BC_C908)
    }
    pub fn word(&mut self, w: u64) {
        self.0 = mix(&[self.0, w]);
    }
    pub fn text(&mut self, s: &str) {
        self.word(hash_str(s));
        self.word(s.len() as u64);
    }
}
