//! C20, Miri pass — overlapping renders on real `std::thread`s inside the Miri interpreter.
//!
//! The concurrent pass of `c20conc.rs` sees only synchronisation that goes through
//! std::sync / std::thread / thread_local!. Shared state behind `UnsafeCell`, `static mut` or
//! `core` atomics (seeded change c20i) is invisible to it. Miri interprets the *unmodified*
//! library, decides the interleaving of its threads with a seeded scheduler
//! (`-Zmiri-seed` / `-Zmiri-many-seeds`, preemption at basic-block granularity) and checks every
//! memory access for data races and aliasing violations. One seed is one exactly repeatable
//! execution. The program under Miri is `/verif/miri` (2-3 threads × 3 renders + io_map on one
//! compiled expression, compared with the sequential results).

use crate::coord;
use serde_json::{json, Map, Value};
use std::path::Path;
use std::process::Command;

// Isolation stays ON: clock, randomness (hash keys) and environment are Miri's own, derived from the
// seed, so that one seed is one exactly repeatable execution whatever the host process looks like.
const FLAGS: &str = "-Zmiri-preemption-rate=0.1";

fn miri_dir() -> std::path::PathBuf {
    coord::verif_root().join("miri")
}

fn run_miri(seed_flags: &str, workload: u64) -> Result<(i32, String), String> {
    let out = Command::new("cargo")
        .args(["+nightly", "miri", "run", "--offline", "--quiet", "--", &workload.to_string()])
        .current_dir(miri_dir())
        .env("CARGO_TARGET_DIR", coord::verif_root().join("target").join("miri"))
        .env("MIRIFLAGS", format!("{seed_flags} {FLAGS}"))
        .env("CARGO_NET_OFFLINE", "true")
        .output()
        .map_err(|e| format!("cannot run cargo miri: {e}"))?;
    let text = format!("{}{}", String::from_utf8_lossy(&out.stdout), String::from_utf8_lossy(&out.stderr));
    Ok((out.status.code().unwrap_or(-1), text))
}

pub fn available() -> bool {
    Command::new("cargo").args(["+nightly", "miri", "--version"]).output().map(|o| o.status.success()).unwrap_or(false)
}

fn class_of(out: &str, workload: u64) -> &'static str {
    match (workload >= 100, out.contains("MISMATCH")) {
        (false, true) => "concurrent-render-differs",
        (false, false) => "concurrent-render-undefined-behaviour",
        (true, true) => "concurrent-compile-differs",
        (true, false) => "concurrent-compile-undefined-behaviour",
    }
}

fn first_error(text: &str) -> String {
    let mut lines = text.lines().skip_while(|l| !(l.starts_with("error") || l.starts_with("MISMATCH")));
    let head = lines.next().unwrap_or("miri reported a failure").to_string();
    let place = lines.find(|l| l.trim_start().starts_with("-->")).map(|l| l.trim().to_string()).unwrap_or_default();
    format!("{head} {place}")
}

pub struct PassResult {
    pub exit: i32,
    pub violations: u64,
    pub evidence: Map<String, Value>,
}

pub fn pass(quick: bool) -> Result<PassResult, String> {
    pass_for("C20", quick)
}

/// C20: renders of one compiled value (workloads 0..8); C15: overlapping parse+compile of one text
/// (workloads 100..108 of the same program).
pub fn pass_for(prop: &'static str, quick: bool) -> Result<PassResult, String> {
    let c15 = prop == "C15";
    let mut ev = Map::new();
    if !available() {
        ev.insert("status".into(), json!("skipped: cargo +nightly miri is not available"));
        println!("{prop} miri pass: skipped (cargo +nightly miri not available)");
        return Ok(PassResult { exit: 0, violations: 0, evidence: ev });
    }
    let timer = coord::Timer::start();
    let (workloads, seeds): (Vec<u64>, u64) = match (c15, quick) {
        (false, true) => (vec![1, 4], 8),
        (false, false) => ((0..8).collect(), 64),
        (true, true) => (vec![101, 106], 4),
        (true, false) => ((100..108).collect(), 32),
    };
    let mut executions = 0;
    for w in &workloads {
        let (code, text) = run_miri(&format!("-Zmiri-many-seeds=0..{seeds}"), *w)?;
        executions += seeds;
        if code == 0 {
            continue;
        }
        if text.contains("could not compile") || text.contains("error: failed to") {
            // a tree Miri cannot build or interpret: not a verdict
            ev.insert("status".into(), json!(format!("skipped: the program does not build under miri: {}", first_error(&text))));
            println!("{prop} miri pass: skipped (does not build under miri)");
            return Ok(PassResult { exit: 0, violations: 0, evidence: ev });
        }
        // find the smallest failing seed for an exact replay
        let mut failing = None;
        for s in 0..seeds {
            let (c, t) = run_miri(&format!("-Zmiri-seed={s}"), *w)?;
            if c != 0 {
                failing = Some((s, t));
                break;
            }
        }
        let (seed, out) = failing.unwrap_or((0, text));
        if out.contains("unsupported operation") {
            ev.insert("status".into(), json!(format!("skipped: {}", first_error(&out))));
            println!("{prop} miri pass: skipped (operation not supported by miri)");
            return Ok(PassResult { exit: 0, violations: 0, evidence: ev });
        }
        let class = class_of(&out, *w);
        let detail = first_error(&out);
        let path = coord::verif_root().join("replays").join(format!("{prop}-miri-w{w}-s{seed}.json"));
        coord::write_json(
            &path,
            &json!({"property": prop, "kind": "miri", "class": class, "detail": detail, "workload": w, "miri_seed": seed, "miri_flags": FLAGS}),
        )?;
        println!("violation class={class} detail: overlapping {} under Miri, workload {w}, seed {seed}: {detail}", if c15 { "parse()/compile() calls on one text" } else { "scheme()/io_map() calls" });
        println!("VIOLATION property={prop} replay={}", path.display());
        ev.insert("replay".into(), json!(path.display().to_string()));
        ev.insert("status".into(), json!("violation"));
        return Ok(PassResult { exit: 1, violations: 1, evidence: ev });
    }
    ev.insert("status".into(), json!("ran"));
    ev.insert("workloads".into(), json!(workloads.len()));
    ev.insert("seeds_per_workload".into(), json!(seeds));
    ev.insert("executions".into(), json!(executions));
    ev.insert("wall_s".into(), json!((timer.secs() * 10.0).round() / 10.0));
    ev.insert(
        "what".into(),
        json!(if c15 {
            "the unmodified library interpreted by Miri: 2-3 std threads parse and compile one text twice each at the same time, keep the trees and drop them in a burst; every dump, program and table compared with the sequential one; Miri's seeded scheduler decides the interleaving, its data-race and aliasing checkers watch every access"
        } else {
            "the unmodified library interpreted by Miri: 2-3 std threads x 3 scheme() calls + io_map() on one compiled expression, each result compared with the sequential one; Miri's seeded scheduler decides the interleaving, its data-race and aliasing checkers watch every access"
        }),
    );
    println!("{prop} miri pass: {} workloads x {seeds} seeds, no data race, no mismatch, {:.1}s", workloads.len(), timer.secs());
    Ok(PassResult { exit: 0, violations: 0, evidence: ev })
}

pub fn replay_file(path: &Path, expect: Option<&str>) -> i32 {
    let doc: Value = match std::fs::read_to_string(path).map_err(|e| e.to_string()).and_then(|t| serde_json::from_str(&t).map_err(|e| e.to_string())) {
        Ok(v) => v,
        Err(e) => {
            eprintln!("harness error: {}: {e}", path.display());
            return 2;
        }
    };
    let (w, seed) = (doc["workload"].as_u64().unwrap_or(0), doc["miri_seed"].as_u64().unwrap_or(0));
    match run_miri(&format!("-Zmiri-seed={seed}"), w) {
        Err(e) => {
            eprintln!("harness error: {e}");
            2
        }
        Ok((0, _)) => {
            if expect.is_none() {
                println!("replay {}: no violation", path.display());
            }
            0
        }
        Ok((_, out)) => {
            if out.contains("could not compile") {
                eprintln!("harness error: the program does not build under miri");
                return 2;
            }
            let class = class_of(&out, w);
            let prop = doc["property"].as_str().unwrap_or("C20").to_string();
            if let Some(e) = expect {
                return if e == class { 1 } else { 0 };
            }
            println!("replay {}: class={class} {}", path.display(), first_error(&out));
            println!("VIOLATION property={prop} replay={}", path.display());
            1
        }
    }
}
