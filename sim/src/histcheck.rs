//! Driver shared by the two history-based properties (C15, C20): block execution in a child
//! process, exact replay, minimisation, evidence.

use crate::coord::{self, BlockResult, Plan};
use crate::hist::{execute, Obs, Op, Scenario};
use crate::rng::{mix, Rng};
use serde_json::{json, Map, Value};
use std::collections::BTreeMap;
use std::path::{Path, PathBuf};

#[derive(Clone, Copy, Debug, PartialEq)]
pub enum Tier {
    Quick,
    Thorough,
}

impl Tier {
    pub fn parse(s: &str) -> Tier {
        if s == "thorough" {
            Tier::Thorough
        } else {
            Tier::Quick
        }
    }
    pub fn name(&self) -> &'static str {
        match self {
            Tier::Quick => "quick",
            Tier::Thorough => "thorough",
        }
    }
}

#[derive(Clone, Debug, PartialEq)]
pub struct Violation {
    pub class: String,
    pub detail: String,
    pub ops: Vec<usize>,
}

#[derive(Default)]
pub struct Judgement {
    pub violation: Option<Violation>,
    /// a subject panicked on every attempt: not this property's business, run is set aside
    pub discarded: bool,
    /// non-trivial by the property's stated rule
    pub nontrivial: bool,
    pub counters: BTreeMap<&'static str, u64>,
}

impl Judgement {
    pub fn bump(&mut self, k: &'static str, n: u64) {
        *self.counters.entry(k).or_insert(0) += n;
    }
}

pub struct HistProp {
    pub id: &'static str,
    pub scenario: fn(&mut Rng, Tier) -> Scenario,
    pub judge: fn(&Scenario, &[(usize, Obs)]) -> Judgement,
    pub rule: &'static str,
    pub assumptions: &'static [&'static str],
    pub quick_runs: u64,
    pub thorough_runs: u64,
    pub block: u64,
    /// also execute a sample of the histories in several fresh processes with different hash
    /// seeds and require identical observations (the property speaks about processes)
    pub cross_process: bool,
}

fn env_u64(name: &str) -> Option<u64> {
    std::env::var(name).ok().and_then(|s| s.trim().parse().ok())
}

thread_local! {
    static CURRENT_INDEX: std::cell::Cell<u64> = const { std::cell::Cell::new(0) };
}
/// The run index whose scenario is being generated (generators may reserve index ranges for
/// particular kinds of history; everything else about a scenario comes from its own PRNG).
pub fn current_index() -> u64 {
    CURRENT_INDEX.with(|c| c.get())
}
/// The scenario of run `index`: a function of (seed, property, index, tier).
pub fn scenario_at(p: &HistProp, seed: u64, index: u64, tier: Tier) -> Scenario {
    CURRENT_INDEX.with(|c| c.set(index));
    let mut rng = Rng::new(coord::run_seed(seed, p.id, index));
    (p.scenario)(&mut rng, tier)
}

/// Executed in a block child process.
pub fn run_block(p: &HistProp, seed: u64, first: u64, count: u64, tier: Tier) -> BlockResult {
    let known = coord::known_findings(p.id);
    let mut br = BlockResult { first, count, ..Default::default() };
    for index in first..first + count {
        let sc = scenario_at(p, seed, index, tier);
        let out = execute(&sc);
        let mut j = (p.judge)(&sc, &out.obs);
        let mut digest = out.digest;
        if let Some(v) = &j.violation {
            digest = mix(&[digest, crate::rng::hash_str(&v.class)]);
        }
        br.digests.push(digest);
        br.stable_digests.push(match &j.violation {
            Some(v) => mix(&[out.stable_digest, crate::rng::hash_str(&v.class)]),
            None => out.stable_digest,
        });
        for (k, v) in &out.fired.map {
            br.bump(k, *v);
        }
        br.bump("simulated_seconds", out.sim_seconds);
        br.bump("operations", sc.ops.len() as u64);
        for (k, v) in &j.counters {
            br.bump(k, *v);
        }
        if j.discarded {
            br.bump("discarded_runs", 1);
        }
        if j.nontrivial {
            br.bump("nontrivial_runs", 1);
            br.distinct.push(sc.shape());
        }
        if br.samples.is_empty() && j.nontrivial && sc.ops.len() <= 25 && sc.subjects.iter().all(|s| s.len() < 300) {
            br.samples.push(json!({"run_index": index, "scenario": sc.to_json()}));
        }
        if let Some(v) = j.violation.take() {
            if let Some(k) = known.iter().position(|(class, key, _)| *class == v.class && v.detail.contains(key.as_str())) {
                br.bump(&format!("known_finding_{k}"), 1);
                continue;
            }
            br.violation = Some(json!({
                "run_index": index,
                "class": v.class,
                "detail": v.detail,
                "ops": v.ops,
                "scenario": sc.to_json(),
            }));
            break;
        }
    }
    br.distinct.sort();
    br.distinct.dedup();
    br
}

/// Execute the scenarios of a replay document in order, in this process. Returns the first
/// violation (scenario position, violation).
pub fn replay_doc(p: &HistProp, doc: &Value) -> Result<Option<(usize, Violation)>, String> {
    let scs = doc["scenarios"].as_array().ok_or("replay file: missing scenarios")?;
    for (i, s) in scs.iter().enumerate() {
        let sc = Scenario::from_json(s)?;
        let out = execute(&sc);
        let j = (p.judge)(&sc, &out.obs);
        if let Some(v) = j.violation {
            return Ok(Some((i, v)));
        }
    }
    Ok(None)
}

struct Minimiser<'a> {
    p: &'a HistProp,
    class: String,
    seed: u64,
    run_index: u64,
    scratch: PathBuf,
    tests: u64,
    /// shrinking is best effort under a budget (it does not influence the verdict): once it is used
    /// up every further candidate counts as "does not fail", so the current history is kept
    started: std::time::Instant,
    budgeted: bool,
    exhausted: bool,
}

impl<'a> Minimiser<'a> {
    fn doc(&self, scs: &[Scenario], detail: &str) -> Value {
        json!({
            "property": self.p.id,
            "profile": coord::build_variant(),
            "seed": self.seed,
            "run_index": self.run_index,
            "class": self.class,
            "detail": detail,
            "scenarios": scs.iter().map(|s| s.to_json()).collect::<Vec<_>>(),
        })
    }

    fn fails(&mut self, scs: &[Scenario]) -> Result<bool, String> {
        let max_tests: u64 = std::env::var("VERIF_MIN_TESTS").ok().and_then(|v| v.parse().ok()).unwrap_or(600);
        let max_secs: u64 = std::env::var("VERIF_MIN_SECS").ok().and_then(|v| v.parse().ok()).unwrap_or(300);
        if self.budgeted && (self.tests >= max_tests || self.started.elapsed().as_secs() >= max_secs) {
            self.exhausted = true;
            coord::DDMIN_STOP.store(true, std::sync::atomic::Ordering::SeqCst);
            return Ok(false);
        }
        self.tests += 1;
        let file = self.scratch.join(format!("{}-cand-{}.json", self.p.id, std::process::id()));
        coord::write_json(&file, &self.doc(scs, ""))?;
        let r = coord::replay_reproduces(&file, &self.class);
        let _ = std::fs::remove_file(&file);
        r
    }
}

fn simplify_op(op: &Op) -> Vec<Op> {
    let mut out = vec![];
    match op {
        Op::Compile { subj, slot, script, twice } => {
            if *twice {
                out.push(Op::Compile { subj: *subj, slot: *slot, script: script.clone(), twice: false });
            }
            if !script.is_empty() {
                out.push(Op::Compile { subj: *subj, slot: *slot, script: vec![], twice: *twice });
                let nz: Vec<i64> = script.iter().map(|d| if *d > 1 || *d < 0 { *d } else { 0 }).collect();
                if nz != *script {
                    out.push(Op::Compile { subj: *subj, slot: *slot, script: nz, twice: *twice });
                }
            }
        }
        Op::Unrelated { texts, script } => {
            if texts.len() > 1 {
                for i in 0..texts.len() {
                    let mut t = texts.clone();
                    t.remove(i);
                    out.push(Op::Unrelated { texts: t, script: script.clone() });
                }
            }
            if !script.is_empty() {
                out.push(Op::Unrelated { texts: texts.clone(), script: vec![] });
            }
        }
        Op::ClockShift { delta } => {
            for d in [1i64, 60, 86_400, -1, -60] {
                if d.signum() == delta.signum() && d.abs() < delta.abs() {
                    out.push(Op::ClockShift { delta: d });
                }
            }
        }
        _ => {}
    }
    out
}

/// Minimise the violation found at `run_index` and write the replay file. Returns its path.
pub fn minimise_and_report(p: &HistProp, seed: u64, tier: Tier, block_first: u64, vio: &Value) -> Result<(PathBuf, u64, usize), String> {
    let run_index = vio["run_index"].as_u64().ok_or("violation without run_index")?;
    let class = vio["class"].as_str().ok_or("violation without class")?.to_string();
    let detail = vio["detail"].as_str().unwrap_or("").to_string();
    let failing = Scenario::from_json(&vio["scenario"])?;
    coord::DDMIN_STOP.store(false, std::sync::atomic::Ordering::SeqCst);
    let mut m = Minimiser { p, class: class.clone(), seed, run_index, scratch: coord::scratch_dir(), tests: 0, started: std::time::Instant::now(), budgeted: false, exhausted: false };

    // 1. does the failing run fail on its own in a fresh process?
    let mut prefix: Vec<Scenario> = vec![];
    if !m.fails(&[failing.clone()])? {
        // it needs state left by earlier runs of its block: replay the block prefix
        for index in block_first..run_index {
            prefix.push(scenario_at(p, seed, index, tier));
        }
        let mut all = prefix.clone();
        all.push(failing.clone());
        if !m.fails(&all)? {
            return Err(format!(
                "violation {class} of run {run_index} did not reproduce in a fresh process, neither alone nor after its block prefix: the harness or the code under test is not deterministic"
            ));
        }
        m.budgeted = true;
        let fl = failing.clone();
        let mut err = None;
        prefix = coord::ddmin(&prefix, |cand| {
            let mut all = cand.to_vec();
            all.push(fl.clone());
            match m.fails(&all) {
                Ok(b) => b,
                Err(e) => {
                    err = Some(e);
                    false
                }
            }
        });
        if let Some(e) = err {
            return Err(e);
        }
        // a single remaining prefix run may be droppable too
        if prefix.len() == 1 && m.fails(&[failing.clone()])? {
            prefix.clear();
        }
    }

    // 2. shrink the operations of the failing run
    m.budgeted = true;
    let build = |prefix: &Vec<Scenario>, ops: &[Op], base: &Scenario| {
        let mut all = prefix.clone();
        let mut s = base.clone();
        s.ops = ops.to_vec();
        all.push(s);
        all
    };
    let mut err = None;
    let mut ops = coord::ddmin(&failing.ops, |cand| match m.fails(&build(&prefix, cand, &failing)) {
        Ok(b) => b,
        Err(e) => {
            err = Some(e);
            false
        }
    });
    if let Some(e) = err {
        return Err(e);
    }
    // one-at-a-time removal pass (ddmin's result is 1-minimal only w.r.t. its chunking)
    let mut i = 0;
    while i < ops.len() && ops.len() > 1 && !m.exhausted {
        let mut cand = ops.clone();
        cand.remove(i);
        if m.fails(&build(&prefix, &cand, &failing))? {
            ops = cand;
        } else {
            i += 1;
        }
    }
    // 3. simplify what is left
    let mut changed = true;
    while changed && !m.exhausted {
        changed = false;
        for i in 0..ops.len() {
            if m.exhausted {
                break;
            }
            for alt in simplify_op(&ops[i]) {
                let mut cand = ops.clone();
                cand[i] = alt;
                if m.fails(&build(&prefix, &cand, &failing))? {
                    ops = cand;
                    changed = true;
                    break;
                }
            }
        }
    }
    // 4. same for the prefix runs' operations (rarely needed)
    for k in 0..prefix.len() {
        if m.exhausted {
            break;
        }
        let base = prefix[k].clone();
        let mut err = None;
        let kept = coord::ddmin(&base.ops, |cand| {
            let mut pf = prefix.clone();
            pf[k].ops = cand.to_vec();
            match m.fails(&build(&pf, &ops, &failing)) {
                Ok(b) => b,
                Err(e) => {
                    err = Some(e);
                    false
                }
            }
        });
        if let Some(e) = err {
            return Err(e);
        }
        prefix[k].ops = kept;
    }
    // 4b. shrink the subject texts (drop whitespace-separated words while it still fails)
    let mut shrunk = failing.clone();
    shrunk.ops = ops.clone();
    for si in 0..shrunk.subjects.len() {
        let used = shrunk.ops.iter().any(|o| matches!(o, Op::Parse { subj } | Op::Compile { subj, .. } | Op::CompileQuiet { subj, .. } if *subj == si))
            || shrunk.ops.iter().any(|o| matches!(o, Op::Compare { a, b } if *a == si || *b == si));
        if !used || m.exhausted {
            continue;
        }
        let mut progress = true;
        while progress {
            progress = false;
            let words: Vec<String> = shrunk.subjects[si].split(' ').map(String::from).collect();
            if words.len() < 2 || words.len() > 400 {
                break;
            }
            let mut len = (words.len() / 2).max(1);
            'outer: loop {
                let mut i = 0;
                while i + len <= words.len() {
                    if len < words.len() {
                        let cand_text: String = words[..i].iter().chain(words[i + len..].iter()).cloned().collect::<Vec<_>>().join(" ");
                        let mut cand = shrunk.clone();
                        cand.subjects[si] = cand_text;
                        let mut all = prefix.clone();
                        all.push(cand.clone());
                        if m.exhausted {
                            break 'outer;
                        }
                        if m.fails(&all)? {
                            shrunk = cand;
                            progress = true;
                            break 'outer;
                        }
                    }
                    i += len.max(1);
                }
                if len == 1 {
                    break;
                }
                len = (len / 2).max(1);
            }
        }
    }
    // 4c. shrink the device paths that are rendered (drop characters while it still fails)
    for pi in 1..shrunk.paths.len() {
        let used = shrunk.ops.iter().any(|o| matches!(o, Op::Render { path, .. } if *path == pi));
        if !used {
            continue;
        }
        if m.exhausted {
            break;
        }
        let chars: Vec<char> = shrunk.paths[pi].chars().collect();
        if chars.len() < 2 {
            continue;
        }
        let base = shrunk.clone();
        let mut err = None;
        let kept = coord::ddmin(&chars, |cand| {
            let mut c = base.clone();
            c.paths[pi] = cand.iter().collect();
            let mut all = prefix.clone();
            all.push(c);
            match m.fails(&all) {
                Ok(b) => b,
                Err(e) => {
                    err = Some(e);
                    false
                }
            }
        });
        if let Some(e) = err {
            return Err(e);
        }
        shrunk.paths[pi] = kept.into_iter().collect();
    }
    let failing = shrunk.clone();
    let ops = shrunk.ops.clone();
    // 5. drop subjects and paths no operation refers to (indices are remapped)
    let mut uncompacted = failing.clone();
    uncompacted.ops = ops;
    let mut scs = prefix.clone();
    scs.push(compact(&uncompacted));
    if !m.fails(&scs)? {
        // compaction must not change behaviour; fall back to the uncompacted scenario
        scs.pop();
        scs.push(uncompacted);
    }
    // final detail from an in-fresh-process replay is what the user sees when replaying; keep
    // the original detail in the file for reference
    let path = coord::verif_root().join("replays").join(format!("{}-{}-{}.json", p.id, seed, run_index));
    let mut doc = m.doc(&scs, &detail);
    if m.exhausted {
        doc["minimisation"] = json!(format!("stopped at its budget after {} replays in fresh processes: the history may still contain operations that are not needed", m.tests));
    }
    coord::write_json(&path, &doc)?;
    if !coord::replay_reproduces(&path, &class)? {
        return Err("minimised replay file does not reproduce".into());
    }
    let n_ops = scs.iter().map(|s| s.ops.len()).sum();
    Ok((path, m.tests, n_ops))
}

/// Remove unused subjects/paths and renumber.
fn compact(sc: &Scenario) -> Scenario {
    let mut subj_map: BTreeMap<usize, usize> = BTreeMap::new();
    let mut path_map: BTreeMap<usize, usize> = BTreeMap::new();
    // path 0 is the path every compile is rendered for; it keeps its index
    if !sc.paths.is_empty() {
        path_map.insert(0, 0);
    }
    for op in &sc.ops {
        match op {
            Op::Parse { subj } | Op::Compile { subj, .. } | Op::CompileQuiet { subj, .. } => {
                let n = subj_map.len();
                subj_map.entry(*subj).or_insert(n);
            }
            Op::Compare { a, b } => {
                for x in [a, b] {
                    let n = subj_map.len();
                    subj_map.entry(*x).or_insert(n);
                }
            }
            Op::Render { path, .. } => {
                let n = path_map.len();
                path_map.entry(*path).or_insert(n);
            }
            _ => {}
        }
    }
    let mut subjects = vec![String::new(); subj_map.len()];
    for (old, new) in &subj_map {
        if let Some(t) = sc.subjects.get(*old) {
            subjects[*new] = t.clone();
        }
    }
    let mut paths = vec![String::new(); path_map.len()];
    for (old, new) in &path_map {
        if let Some(t) = sc.paths.get(*old) {
            paths[*new] = t.clone();
        }
    }
    let ops = sc
        .ops
        .iter()
        .map(|op| match op {
            Op::Parse { subj } => Op::Parse { subj: subj_map[subj] },
            Op::Compile { subj, slot, script, twice } => {
                Op::Compile { subj: subj_map[subj], slot: *slot, script: script.clone(), twice: *twice }
            }
            Op::CompileQuiet { subj, slot } => Op::CompileQuiet { subj: subj_map[subj], slot: *slot },
            Op::Compare { a, b } => Op::Compare { a: subj_map[a], b: subj_map[b] },
            Op::Render { slot, path } => Op::Render { slot: *slot, path: path_map[path] },
            other => other.clone(),
        })
        .collect();
    Scenario { subjects, paths, clock_start: sc.clock_start, hash_seed: sc.hash_seed, ops }
}

// ---------------------------------------------------------------------------------------------
// cross-process comparison

/// `fpsim outputs <file> <i>`: execute scenario `i` of a replay document in this (fresh) process
/// and print what the caller observed, one JSON string per observation.
pub fn outputs_cmd(path: &Path, i: usize) -> i32 {
    let doc: Value = match std::fs::read_to_string(path).map_err(|e| e.to_string()).and_then(|t| serde_json::from_str(&t).map_err(|e| e.to_string())) {
        Ok(v) => v,
        Err(e) => {
            eprintln!("harness error: {}: {e}", path.display());
            return 2;
        }
    };
    let sc = match doc["scenarios"].get(i).ok_or("no such scenario".to_string()).and_then(Scenario::from_json) {
        Ok(s) => s,
        Err(e) => {
            eprintln!("harness error: {e}");
            return 2;
        }
    };
    let out = execute(&sc);
    let list: Vec<Value> = out.obs.iter().map(|(i, o)| json!([i, o.stable()])).collect();
    println!("{}", Value::Array(list));
    0
}

fn child_outputs(path: &Path, i: usize, execution: usize) -> Result<Vec<(u64, String)>, String> {
    use std::os::unix::process::CommandExt;
    let exe = std::env::current_exe().map_err(|e| e.to_string())?;
    let out = std::process::Command::new(exe)
        // the k-th execution runs under the k-th program name (argv[0])
        .arg0(coord::PROGRAM_NAMES[execution % coord::PROGRAM_NAMES.len()])
        .args(["outputs", &path.display().to_string(), &i.to_string()])
        .stdin(std::process::Stdio::null())
        .output()
        .map_err(|e| format!("spawn outputs child: {e}"))?;
    if !out.status.success() {
        return Err(format!("outputs child failed: {}", String::from_utf8_lossy(&out.stderr).trim()));
    }
    let v: Value = serde_json::from_slice(&out.stdout).map_err(|e| format!("outputs child: {e}"))?;
    Ok(v.as_array()
        .ok_or("outputs child: not an array")?
        .iter()
        .map(|x| (x[0].as_u64().unwrap_or(0), x[1].as_str().unwrap_or("").to_string()))
        .collect())
}

pub const XPROC_CLASS: &str = "differs-across-processes";
pub const XPROC_REPEATS: usize = 3;

/// Execute every scenario of the document in its own fresh process and compare what the
/// callers observed. The scenarios are variants of one history (same operations and clock
/// scripts, possibly different hash seeds), so every observation must be identical.
pub fn xproc_compare(path: &Path) -> Result<Option<Violation>, String> {
    let doc: Value = serde_json::from_str(&std::fs::read_to_string(path).map_err(|e| e.to_string())?).map_err(|e| e.to_string())?;
    let n = doc["scenarios"].as_array().map(|a| a.len()).unwrap_or(0);
    let mut first: Option<Vec<(u64, String)>> = None;
    // every variant is executed in XPROC_REPEATS fresh processes: a difference that shows only
    // for some address-space layouts must not slip through a single lucky pair
    for k in 0..n * XPROC_REPEATS {
        let i = k % n;
        let outs = child_outputs(path, i, k)?;
        match &first {
            None => first = Some(outs),
            Some(f) => {
                if *f != outs {
                    let k = f.iter().zip(outs.iter()).position(|(a, b)| a != b).unwrap_or(f.len().min(outs.len()));
                    let (a, b) = (f.get(k).cloned().unwrap_or_default(), outs.get(k).cloned().unwrap_or_default());
                    let at = a.1.bytes().zip(b.1.bytes()).position(|(x, y)| x != y).unwrap_or(a.1.len().min(b.1.len()));
                    let cut = |t: &str| {
                        let mut lo = at.saturating_sub(40).min(t.len());
                        while !t.is_char_boundary(lo) {
                            lo -= 1;
                        }
                        let mut hi = (at + 60).min(t.len());
                        while !t.is_char_boundary(hi) {
                            hi += 1;
                        }
                        t[lo..hi].to_string()
                    };
                    return Ok(Some(Violation {
                        class: XPROC_CLASS.into(),
                        detail: format!(
                            "the same history observed different results in fresh process 0 and fresh process {i}: op {}: {:?} vs {:?}",
                            a.0,
                            cut(&a.1),
                            cut(&b.1)
                        ),
                        ops: vec![a.0 as usize],
                    }));
                }
            }
        }
    }
    Ok(None)
}

fn xproc_doc(p: &HistProp, seed: u64, index: u64, variants: &[Scenario], detail: &str) -> Value {
    json!({
        "property": p.id, "profile": coord::build_variant(), "seed": seed, "run_index": index, "class": XPROC_CLASS, "detail": detail,
        "xproc": true,
        "scenarios": variants.iter().map(|s| s.to_json()).collect::<Vec<_>>(),
    })
}

fn variants_of(sc: &Scenario, same_seed: bool) -> Vec<Scenario> {
    let mut v1 = sc.clone();
    if !same_seed {
        v1.hash_seed = mix(&[sc.hash_seed, 1]);
    }
    vec![sc.clone(), v1]
}

/// Cross-process pass over the first `n` run indices. Returns (histories compared, violation).
fn cross_process_pass(p: &HistProp, seed: u64, tier: Tier, n: u64, same_seed_only: Option<u64>) -> Result<(u64, Option<(u64, PathBuf, String)>), String> {
    let scratch = coord::scratch_dir();
    let next = std::sync::atomic::AtomicU64::new(0);
    let found: std::sync::Mutex<Vec<(u64, Violation)>> = std::sync::Mutex::new(vec![]);
    let errors: std::sync::Mutex<Vec<String>> = std::sync::Mutex::new(vec![]);
    let indices: Vec<u64> = match same_seed_only {
        Some(i) => vec![i],
        None => (0..n).collect(),
    };
    std::thread::scope(|s| {
        for _ in 0..coord::workers() {
            s.spawn(|| loop {
                let k = next.fetch_add(1, std::sync::atomic::Ordering::SeqCst) as usize;
                if k >= indices.len() || !found.lock().unwrap().is_empty() {
                    break;
                }
                let index = indices[k];
                let sc = scenario_at(p, seed, index, tier);
                // alternate: same hash seed in two processes / different hash seeds
                let variants = variants_of(&sc, same_seed_only.is_some() || index % 3 == 0);
                let file = scratch.join(format!("{}-xproc-{}-{}.json", p.id, std::process::id(), index));
                let r = coord::write_json(&file, &xproc_doc(p, seed, index, &variants, "")).and_then(|_| xproc_compare(&file));
                let _ = std::fs::remove_file(&file);
                match r {
                    Ok(Some(v)) => found.lock().unwrap().push((index, v)),
                    Ok(None) => {}
                    Err(e) => errors.lock().unwrap().push(e),
                }
            });
        }
    });
    if let Some(e) = errors.into_inner().unwrap().into_iter().next() {
        return Err(e);
    }
    let mut found = found.into_inner().unwrap();
    found.sort_by_key(|(i, _)| *i);
    let Some((index, v)) = found.into_iter().next() else { return Ok((indices.len() as u64, None)) };
    // minimise: drop operations (from all variants alike) while the processes still disagree
    let sc = scenario_at(p, seed, index, tier);
    let same = same_seed_only.is_some() || index % 3 == 0;
    let cand_file = scratch.join(format!("{}-xproc-min-{}.json", p.id, std::process::id()));
    let mut err = None;
    // best effort under a budget, as in minimise_and_report
    coord::DDMIN_STOP.store(false, std::sync::atomic::Ordering::SeqCst);
    let (min_started, mut min_tests) = (std::time::Instant::now(), 0u64);
    let mut differs = |ops: &[Op]| -> bool {
        min_tests += 1;
        if min_tests > 300 || min_started.elapsed().as_secs() >= 300 {
            coord::DDMIN_STOP.store(true, std::sync::atomic::Ordering::SeqCst);
            return false;
        }
        let mut s = sc.clone();
        s.ops = ops.to_vec();
        let r = coord::write_json(&cand_file, &xproc_doc(p, seed, index, &variants_of(&s, same), "")).and_then(|_| xproc_compare(&cand_file));
        match r {
            Ok(v) => v.is_some(),
            Err(e) => {
                err = Some(e);
                false
            }
        }
    };
    let mut ops = coord::ddmin(&sc.ops, &mut differs);
    let mut i = 0;
    while i < ops.len() && ops.len() > 1 {
        let mut c = ops.clone();
        c.remove(i);
        if differs(&c) {
            ops = c;
        } else {
            i += 1;
        }
    }
    let _ = std::fs::remove_file(&cand_file);
    if let Some(e) = err {
        return Err(e);
    }
    let mut s = sc.clone();
    s.ops = ops;
    let path = coord::verif_root().join("replays").join(format!("{}-{}-{}-xproc.json", p.id, seed, index));
    coord::write_json(&path, &xproc_doc(p, seed, index, &variants_of(&s, same), &v.detail))?;
    for _attempt in 0..4 {
        if let Some(v2) = xproc_compare(&path)? {
            return Ok((indices.len() as u64, Some((index, path, v2.detail))));
        }
    }
    Err("cross-process disagreement did not reproduce from the minimised replay file in 4 attempts of 6 fresh processes each; the difference between processes is itself too unstable to report".into())
}

/// Reduced determinism proof run before every check: the same runs executed in fresh processes
/// with two different block partitions must give identical per-run event-log digests.
pub fn determinism_precheck(p: &HistProp, seed: u64, tier: Tier, runs: u64) -> Result<u64, String> {
    let a = coord::run_plan(&Plan { prop: p.id, tier: tier.name().into(), seed, runs, block: runs, workers: 1 })?;
    let b = coord::run_plan(&Plan { prop: p.id, tier: tier.name().into(), seed, runs, block: (runs / 8).max(1), workers: coord::workers() })?;
    // (a violation is reported by the main pass, with minimisation; here only digests are compared)
    let mut internal_only: Option<u64> = None;
    for (i, d) in &a.digests {
        if let Some(d2) = b.digests.get(i) {
            if d != d2 {
                // The full event log (reach probes, seam counters) differs between the two block
                // partitions. If what the callers observed is the same, the library keeps
                // process-wide state that survives from one run to the next in a block (a cache, an
                // interner): legitimate, and no concern of the property. Only a difference in the
                // observations is reported.
                if a.stable_digests.get(i) == b.stable_digests.get(i) {
                    internal_only.get_or_insert(*i);
                    continue;
                }
                return Err(format!(
                    "MISMATCH {i} {}: run {i} produced different event logs in two fresh processes ({d:016x} vs {d2:016x}): nondeterminism reached the simulation",
                    p.id
                ));
            }
        }
    }
    if let Some(i) = internal_only {
        eprintln!(
            "note: {}: the library keeps process-wide state across runs (first seen at run {i}: seam counters or reach probes differ between block partitions, the callers' observations do not)",
            p.id
        );
    }
    Ok(a.digests.len().min(b.digests.len()) as u64)
}

/// `fpsim check <prop> <tier>`; returns the process exit code.
/// Result of an additional pass a property may run after its history pass.
pub struct PostPass {
    pub exit: i32,
    pub violations: u64,
    pub name: &'static str,
    pub evidence: Map<String, Value>,
}

pub fn check(p: &HistProp, tier: Tier, post: Option<&dyn Fn(u64, Tier) -> Result<PostPass, String>>) -> i32 {
    let timer = coord::Timer::start();
    let seed = coord::seed_from_env();
    println!("VERIF_SEED={seed} property={} tier={}", p.id, tier.name());
    if let Err(e) = crate::seam::seams_are_live() {
        eprintln!("harness error: {e}");
        return 2;
    }
    let pre_runs = if tier == Tier::Quick { 200 } else { 2000 };
    let mut xproc_violation: Option<(u64, PathBuf, String)> = None;
    let pre = match determinism_precheck(p, seed, tier, pre_runs) {
        Ok(n) => n,
        Err(e) => {
            // Two fresh processes disagreed on the same simulated run. If the property speaks
            // about processes (C15) and the disagreement is in what the caller observed, it is a
            // violation with a two-process replay; otherwise the harness cannot be trusted.
            let idx = e.strip_prefix("MISMATCH ").and_then(|r| r.split_whitespace().next()).and_then(|x| x.parse::<u64>().ok());
            match (p.cross_process, idx) {
                (true, Some(i)) => match cross_process_pass(p, seed, tier, 0, Some(i)) {
                    Ok((_, Some(v))) => {
                        xproc_violation = Some(v);
                        0
                    }
                    Ok((_, None)) => {
                        eprintln!("harness error: {e} (but the callers' observations agree: the harness's own event log is unstable)");
                        return 2;
                    }
                    Err(e2) => {
                        eprintln!("harness error: {e}; {e2}");
                        return 2;
                    }
                },
                _ => {
                    eprintln!("harness error: {e}");
                    return 2;
                }
            }
        }
    };
    let runs = if xproc_violation.is_some() { 0 } else { env_u64("VERIF_RUNS").unwrap_or(if tier == Tier::Quick { p.quick_runs } else { p.thorough_runs }) };
    let plan = Plan { prop: p.id, tier: tier.name().into(), seed, runs, block: p.block, workers: coord::workers() };
    let red = match coord::run_plan(&plan) {
        Ok(r) => r,
        Err(e) => {
            eprintln!("harness error: {e}");
            return 2;
        }
    };
    let discarded = red.counters.get("discarded_runs").copied().unwrap_or(0);
    if red.runs_done > 200 && discarded * 100 > red.runs_done {
        eprintln!(
            "harness error: {discarded} of {} runs were set aside because a generated subject panicked on every attempt; the generator no longer matches the tree",
            red.runs_done
        );
        return 2;
    }
    let mut violations = 0;
    let mut exit = 0;
    let mut replay_path = None;
    if let Some((index, vio)) = &red.violation {
        violations = 1;
        let block_first = (index / p.block) * p.block;
        match minimise_and_report(p, seed, tier, block_first, vio) {
            Ok((path, tests, n_ops)) => {
                println!(
                    "violation class={} run={} detail: {}",
                    vio["class"].as_str().unwrap_or("?"),
                    index,
                    vio["detail"].as_str().unwrap_or("")
                );
                println!("minimised to {n_ops} operation(s) with {tests} fresh-process replays");
                println!("VIOLATION property={} replay={}", p.id, path.display());
                replay_path = Some(path);
                exit = 1;
            }
            Err(e) => {
                eprintln!("harness error: {e}");
                return 2;
            }
        }
    }
    // cross-process pass (properties that speak about processes)
    let mut xproc_compared = 0;
    if p.cross_process && exit == 0 {
        if xproc_violation.is_none() {
            let n = env_u64("VERIF_XPROC").unwrap_or(if tier == Tier::Quick { 400 } else { 20_000 });
            match cross_process_pass(p, seed, tier, n, None) {
                Ok((c, v)) => {
                    xproc_compared = c;
                    xproc_violation = v;
                }
                Err(e) => {
                    eprintln!("harness error: {e}");
                    return 2;
                }
            }
        }
        if let Some((index, path, detail)) = &xproc_violation {
            violations = 1;
            println!("violation class={XPROC_CLASS} run={index} detail: {detail}");
            println!("VIOLATION property={} replay={}", p.id, path.display());
            replay_path = Some(path.clone());
            exit = 1;
        }
    }
    for (k, (_class, _key, what)) in coord::known_findings(p.id).iter().enumerate() {
        let n = red.counters.get(&format!("known_finding_{k}")).copied().unwrap_or(0);
        if n > 0 {
            println!("KNOWN-FINDING: property={} {what} (observed in {n} runs)", p.id);
        }
    }
    let wall = timer.secs();
    let mut extra_map = Map::new();
    let mut fired = Map::new();
    let mut other = Map::new();
    for (k, v) in &red.counters {
        if k.starts_with("clock_") || k.starts_with("in_call") || k.starts_with("hash_") || k.starts_with("thread_") || k.starts_with("logger_") || k.starts_with("caller_") || k.starts_with("monotonic") || k.starts_with("fault_") || k.starts_with("environment_") {
            fired.insert(k.clone(), json!(v));
        } else {
            other.insert(k.clone(), json!(v));
        }
    }
    extra_map.insert("faults_fired".into(), Value::Object(fired));
    extra_map.insert("counters".into(), Value::Object(other));
    extra_map.insert("runs_per_hour".into(), json!(((red.runs_done as f64) / wall.max(0.001) * 3600.0) as u64));
    extra_map.insert("simulated_seconds".into(), json!(red.counters.get("simulated_seconds").copied().unwrap_or(0)));
    extra_map.insert("child_processes".into(), json!(red.blocks));
    extra_map.insert("determinism_precheck_runs_compared".into(), json!(pre));
    if p.cross_process {
        extra_map.insert("histories_compared_across_fresh_processes".into(), json!(xproc_compared));
        extra_map.insert("fresh_processes_for_cross_process_pass".into(), json!(xproc_compared * 2 * XPROC_REPEATS as u64));
    }
    extra_map.insert(
        "real_vs_stub".into(),
        json!({
            "real": ["lipe_find_parser::parse", "lipe_find_parser::compile", "CompiledExpression::scheme", "CompiledExpression::io_map", "std HashMap/RandomState/SipHash", "OS threads and processes"],
            "stub": ["wall and monotonic clock (clock_gettime seam)", "hash keys (getrandom seam)", "log backend (counting logger)"],
        }),
    );
    if let Some(pth) = &replay_path {
        extra_map.insert("replay".into(), json!(pth.display().to_string()));
    }
    if let Some(post) = post {
        if exit == 0 {
            match post(seed, tier) {
                Ok(pp) => {
                    extra_map.insert(pp.name.into(), Value::Object(pp.evidence));
                    if pp.exit != 0 {
                        exit = pp.exit;
                        violations += pp.violations;
                    }
                }
                Err(e) => {
                    eprintln!("harness error: {e}");
                    return 2;
                }
            }
        }
    }
    let distinct = red.distinct.len() as u64;
    if let Err(e) = coord::write_evidence(coord::EvidenceInput {
        prop: p.id,
        tier: tier.name(),
        seed,
        wall_s: wall,
        evaluations: red.runs_done,
        distinct_nontrivial: distinct,
        rule: p.rule,
        samples: red.samples.clone(),
        extra: extra_map,
        assumptions: p.assumptions.iter().map(|s| s.to_string()).collect(),
        violations,
    }) {
        eprintln!("harness error: {e}");
        return 2;
    }
    println!(
        "{}: {} runs in {} child processes, {} distinct non-trivial history shapes, {} discarded, {:.1}s",
        p.id, red.runs_done, red.blocks, distinct, discarded, wall
    );
    exit
}

pub fn replay_file(p: &HistProp, path: &Path, expect: Option<&str>) -> i32 {
    let text = match std::fs::read_to_string(path) {
        Ok(t) => t,
        Err(e) => {
            eprintln!("harness error: cannot read {}: {e}", path.display());
            return 2;
        }
    };
    let doc: Value = match serde_json::from_str(&text) {
        Ok(v) => v,
        Err(e) => {
            eprintln!("harness error: {}: {e}", path.display());
            return 2;
        }
    };
    if doc["xproc"].as_bool() == Some(true) {
        let mut result = xproc_compare(path);
        for _ in 0..3 {
            if !matches!(result, Ok(None)) {
                break;
            }
            result = xproc_compare(path);
        }
        return match result {
            Err(e) => {
                eprintln!("harness error: {e}");
                2
            }
            Ok(None) => {
                if expect.is_none() {
                    println!("replay {}: fresh processes agree, no violation", path.display());
                }
                0
            }
            Ok(Some(v)) => {
                if let Some(class) = expect {
                    return if v.class == class { 1 } else { 0 };
                }
                println!("replay {}: class={} {}", path.display(), v.class, v.detail);
                println!("VIOLATION property={} replay={}", p.id, path.display());
                1
            }
        };
    }
    match replay_doc(p, &doc) {
        Err(e) => {
            eprintln!("harness error: {e}");
            2
        }
        Ok(None) => {
            if expect.is_none() {
                println!("replay {}: no violation", path.display());
            }
            0
        }
        Ok(Some((i, v))) => {
            if let Some(class) = expect {
                return if v.class == class { 1 } else { 0 };
            }
            println!("replay {}: scenario {i}: class={} {}", path.display(), v.class, v.detail);
            println!("VIOLATION property={} replay={}", p.id, path.display());
            1
        }
    }
}
