//! C16 — concurrent scanner threads never tear or mix output records, and never deadlock.
//!
//! The emitted program (text produced by the real parse/compile/scheme) is executed by the stub
//! runtime of `eval.rs` on 2..4 (sometimes up to 40) scanner threads under a scheduler the simulator owns. The oracle
//! compares what arrives on every destination with the sequential run of the same program.

use crate::coord::{self, BlockResult, Plan};
use crate::eval::{Ev, EvalErr, FileRec, Knobs, Runtime, NO_FILE};
use crate::gen::{self, ActionKind, GenCfg};
use crate::histcheck::Tier;
use crate::rng::{hash_str, mix, Rng};
use crate::sched::{SimScheduler, Strategy};
use crate::seam;
use crate::sexp::{read_all, Sexp};
use serde_json::{json, Map, Value};
use std::collections::{BTreeMap, BTreeSet};
use std::path::{Path, PathBuf};
use std::sync::atomic::Ordering;
use std::sync::{Arc, Mutex};

pub const ID: &str = "C16";
const SEP: char = '\u{1e}';
const COMPILE_CLOCK: u64 = 1_700_000_000;
const MAX_STEPS: usize = 20_000;

/// Step cap of one execution: generous multiple of the sequential run's event count.
fn step_cap(prep: &Prepared) -> usize {
    MAX_STEPS.max(prep.seq_events * 40)
}

#[derive(Clone, Debug)]
pub struct Workload {
    pub expr: String,
    pub files: Vec<FileRec>,
    pub threads: usize,
    pub partition: Vec<Vec<usize>>,
    pub max_chunks: usize,
    pub chunk_seed: u64,
    pub hash_key: u64,
    /// None: unbuffered ports; Some(cap): block-buffered ports of this capacity
    pub buffer_cap: Option<usize>,
    pub flush_resets_first: bool,
    /// buckets of the runtime's hash tables (see eval::Knobs::table_buckets)
    pub table_buckets: usize,
    /// the expression uses a construct the pinned tree refuses or emits unreadably (`-ls`, `\c`):
    /// such workloads are expected to be set aside today and are not counted as generator drift
    pub probe: bool,
    /// budget (scheduler decisions) for which a thread doing a large write stays blocked
    pub stall_large_writes: Option<usize>,
    /// scanner threads pull the next file instead of scanning a fixed share
    pub dynamic_assignment: bool,
}

fn file_to_json(f: &FileRec) -> Value {
    json!({
        "name": f.name, "rel_path": f.rel_path, "abs_path": f.abs_path, "mode": f.mode, "size": f.size,
        "uid": f.uid, "gid": f.gid, "ino": f.ino, "nlink": f.nlink, "atime": f.atime, "ctime": f.ctime,
        "mtime": f.mtime, "blocks": f.blocks, "projid": f.projid, "stripe_count": f.stripe_count,
        "stripe_size": f.stripe_size, "mirror_count": f.mirror_count, "pools": f.pools,
        "xattrs": f.xattrs.iter().map(|(k, v)| json!([k, v])).collect::<Vec<_>>(),
        "empty": f.empty, "executable": f.executable, "readable": f.readable, "writable": f.writable,
    })
}

fn file_from_json(v: &Value) -> Result<FileRec, String> {
    let s = |k: &str| v[k].as_str().map(String::from).ok_or(format!("file: missing {k}"));
    let u = |k: &str| v[k].as_u64().ok_or(format!("file: missing {k}"));
    let i = |k: &str| v[k].as_i64().ok_or(format!("file: missing {k}"));
    let b = |k: &str| v[k].as_bool().ok_or(format!("file: missing {k}"));
    Ok(FileRec {
        name: s("name")?,
        rel_path: s("rel_path")?,
        abs_path: s("abs_path")?,
        mode: u("mode")? as u32,
        size: u("size")?,
        uid: u("uid")? as u32,
        gid: u("gid")? as u32,
        ino: u("ino")?,
        nlink: u("nlink")?,
        atime: i("atime")?,
        ctime: i("ctime")?,
        mtime: i("mtime")?,
        blocks: u("blocks")?,
        projid: u("projid")? as u32,
        stripe_count: u("stripe_count")? as u32,
        stripe_size: u("stripe_size")? as u32,
        mirror_count: u("mirror_count")? as u32,
        pools: v["pools"].as_array().ok_or("file: missing pools")?.iter().filter_map(|p| p.as_str().map(String::from)).collect(),
        xattrs: v["xattrs"]
            .as_array()
            .ok_or("file: missing xattrs")?
            .iter()
            .filter_map(|p| Some((p[0].as_str()?.to_string(), p[1].as_str()?.to_string())))
            .collect(),
        empty: b("empty")?,
        executable: b("executable")?,
        readable: b("readable")?,
        writable: b("writable")?,
    })
}

impl Workload {
    pub fn to_json(&self) -> Value {
        json!({
            "expr": self.expr,
            "files": self.files.iter().map(file_to_json).collect::<Vec<_>>(),
            "threads": self.threads,
            "partition": self.partition,
            "max_chunks": self.max_chunks,
            "chunk_seed": self.chunk_seed,
            "hash_key": self.hash_key,
            "buffer_cap": self.buffer_cap,
            "flush_resets_first": self.flush_resets_first,
            "table_buckets": self.table_buckets,
            "probe": self.probe,
            "stall_large_writes": self.stall_large_writes,
            "dynamic_assignment": self.dynamic_assignment,
        })
    }

    pub fn from_json(v: &Value) -> Result<Workload, String> {
        Ok(Workload {
            expr: v["expr"].as_str().ok_or("workload: missing expr")?.to_string(),
            files: v["files"].as_array().ok_or("workload: missing files")?.iter().map(file_from_json).collect::<Result<_, _>>()?,
            threads: v["threads"].as_u64().ok_or("workload: missing threads")? as usize,
            partition: v["partition"]
                .as_array()
                .ok_or("workload: missing partition")?
                .iter()
                .map(|p| p.as_array().map(|a| a.iter().filter_map(|x| x.as_u64().map(|x| x as usize)).collect()).ok_or("bad partition".to_string()))
                .collect::<Result<_, _>>()?,
            max_chunks: v["max_chunks"].as_u64().ok_or("workload: missing max_chunks")? as usize,
            chunk_seed: v["chunk_seed"].as_u64().ok_or("workload: missing chunk_seed")?,
            hash_key: v["hash_key"].as_u64().ok_or("workload: missing hash_key")?,
            buffer_cap: v["buffer_cap"].as_u64().map(|c| c as usize),
            flush_resets_first: v["flush_resets_first"].as_bool().unwrap_or(false),
            table_buckets: v["table_buckets"].as_u64().unwrap_or(1) as usize,
            probe: v["probe"].as_bool().unwrap_or(false),
            stall_large_writes: v["stall_large_writes"].as_u64().map(|x| x as usize),
            dynamic_assignment: v["dynamic_assignment"].as_bool().unwrap_or(false),
        })
    }
}

fn gen_file(rng: &mut Rng, i: usize, pattern_pool: usize) -> FileRec {
    // names are drawn from the same pool as the patterns (glob characters instantiated), so that
    // name tests discriminate between files
    let pat = gen::pattern(rng.usize_below(pattern_pool.max(1) + 2));
    let mut name = String::new();
    let mut chars = pat.chars().peekable();
    while let Some(c) = chars.next() {
        match c {
            '*' => name.push_str(*rng.pick(&["", "x", "lib"])),
            '?' => name.push(*rng.pick(&['a', '1', 'z'])),
            '[' => {
                let mut first = None;
                for d in chars.by_ref() {
                    if d == ']' {
                        break;
                    }
                    if first.is_none() && d != '-' {
                        first = Some(d);
                    }
                }
                name.push(first.unwrap_or('c'));
            }
            c => name.push(c),
        }
    }
    if rng.chance(1, 4) {
        name = name.to_uppercase();
    }
    let mut rel_path = format!("d{i}/{name}");
    if rng.chance(1, 25) {
        // a deep directory: records longer than any small threshold (256, 512, 1024, 2048 characters)
        // somebody might split, chunk or truncate at; PATH_MAX is 4 KiB
        let target = *rng.pick(&[260usize, 513, 1030, 2100, 4000]);
        let mut dirs = format!("d{i}");
        let mut k = 0;
        while dirs.len() + name.len() + 1 < target {
            dirs.push_str(&format!("/{}{k}", rng.pick(&["projects", "archive_2019", "run", "x"])));
            k += 1;
        }
        rel_path = format!("{dirs}/{name}");
    }
    let types = [0o100000u32, 0o100000, 0o100000, 0o040000, 0o120000, 0o010000];
    // one file in 12 has attribute values at the far ends of their ranges: a scan-time branch on
    // such a value (another printer for huge files, for dates before 1970, for the nobody user, ...) is
    // taken only if some file has it
    let extreme = rng.chance(1, 12);
    if extreme && rng.chance(1, 2) {
        let odd = *rng.pick(&["my file.txt", "résumé.doc", "日本語.log", "a'b.c", "tab\there", "-n", "x y  z"]);
        rel_path = format!("{}/{odd}", rel_path.rsplit_once('/').map(|(d, _)| d.to_string()).unwrap_or_default());
        name = odd.to_string();
    }
    let size = if extreme { *rng.pick(&[0u64, (1 << 31) - 1, 1 << 31, (1 << 32) + 5, 1 << 40, 1 << 53]) } else { rng.range(1, 5_000_000) };
    let pools = ["fast", "ssd0", "arch_1"];
    FileRec {
        abs_path: format!("/mnt/lustre/{rel_path}"),
        name,
        rel_path,
        mode: *rng.pick(&types) | (rng.below(0o10000) as u32),
        size,
        uid: if extreme { *rng.pick(&[65534, 65535, (1u32 << 31) - 1, 4_000_000_000]) } else { *rng.pick(&[0, 1000, 1001, 60000]) },
        gid: if extreme { *rng.pick(&[65534, 4_000_000_000]) } else { *rng.pick(&[0, 100, 1000]) },
        ino: if extreme { (1u64 << 32) + i as u64 * 17 + rng.below(16) } else { 1000 + i as u64 * 17 + rng.below(16) },
        nlink: if extreme { *rng.pick(&[1u64, 1000, 65000, 100_000]) } else { rng.range(1, 3) },
        atime: if extreme { *rng.pick(&[0i64, -1, -86_400 * 365, 1 << 31, (1 << 32) + 7, 253_402_300_799]) } else { COMPILE_CLOCK as i64 - rng.below(200 * 86_400) as i64 },
        ctime: COMPILE_CLOCK as i64 - rng.below(200 * 86_400) as i64,
        mtime: if extreme { *rng.pick(&[0i64, -1, -86_400 * 365, 1 << 31, (1 << 32) + 7, 253_402_300_799]) } else { COMPILE_CLOCK as i64 - rng.below(200 * 86_400) as i64 },
        blocks: (size + 511) / 512,
        projid: rng.below(4) as u32,
        stripe_count: rng.range(1, 4) as u32,
        stripe_size: 1 << 20,
        mirror_count: rng.below(3) as u32,
        pools: if rng.chance(1, 2) { vec![rng.pick(&pools).to_string()] } else { vec![] },
        xattrs: if rng.chance(1, 2) {
            // an extended attribute's value may be as large as 64 KiB: the one field of a record
            // without a small bound (one value in 16 here is 300, 4096 or 65536 characters long)
            let v = if rng.chance(1, 16) {
                let n = *rng.pick(&[300usize, 4096, 65536]);
                let unit = *rng.pick(&["blue", "v1", "0123456789abcdef"]);
                unit.chars().cycle().take(n).collect::<String>()
            } else {
                rng.pick(&["v1", "blue", "xy"]).to_string()
            };
            vec![("user.tag".into(), v)]
        } else {
            vec![]
        },
        empty: rng.chance(1, 8),
        executable: rng.chance(1, 3),
        readable: rng.chance(4, 5),
        writable: rng.chance(2, 3),
    }
}

/// A scan with real data volume: hundreds of files with long names, so that a run emits
/// 100-400 KiB — thresholds such as a pipe's capacity (64 KiB) or PIPE_BUF are crossed, and
/// large writes may block (stall) half-way.
fn volume_workload(rng: &mut Rng, tier: Tier, huge: bool) -> Workload {
    let mut w = workload_inner(rng, tier, true);
    // huge: 1500-3000 files with paths of 2-4 KiB (PATH_MAX is 4 KiB), 3-11 MiB per destination that
    // prints the path — past in-memory limits of a few MiB that a program may set itself
    let n_files = if huge { rng.range(1500, 3000) as usize } else { rng.range(300, 1200) as usize };
    let reps = if huge { rng.range(50, 100) } else { rng.range(2, 6) };
    let pad: String = std::iter::repeat("projects/climate/ensemble-0042/member/").take(reps as usize).collect();
    w.files = (0..n_files)
        .map(|i| {
            let mut f = gen_file(rng, i, 8);
            f.rel_path = format!("d{i}/{pad}{}", f.name);
            f.abs_path = format!("/mnt/lustre/{}", f.rel_path);
            f
        })
        .collect();
    w.threads = *rng.pick(&[2usize, 2, 3]);
    w.partition = vec![vec![]; w.threads];
    for f in 0..n_files {
        w.partition[rng.usize_below(w.threads)].push(f);
    }
    w.max_chunks = *rng.pick(&[2usize, 3, 3]);
    w.buffer_cap = *rng.pick(&[None, None, Some(4096)]);
    w.stall_large_writes = Some(*rng.pick(&[200usize, 2000, 20_000]));
    w
}

/// A long scan: 66 000-132 000 records to ONE destination (5 000-17 000 files, 8-13 actions on the same
/// target each) — counters of records or lines ("every 65536 lines ...", a 16-bit sequence number)
/// only roll over in scans of this length; production scans cover 10^7-10^9 inodes.
fn many_records_workload(rng: &mut Rng, tier: Tier) -> Workload {
    let mut w = workload_inner(rng, tier, true);
    let k = rng.range(8, 13) as usize;
    let action = *rng.pick(&["-print", "-print", "-fprint lines.txt", "-printf '%p\\n'", "-fprintf lines.txt '%f\\n'"]);
    let lead = if rng.chance(1, 2) { "-fprint files.txt " } else { "" };
    w.expr = format!("{lead}{}", vec![action; k].join(" "));
    w.probe = false;
    let records = *rng.pick(&[66_000usize, 70_000, 132_000]);
    let n_files = records.div_ceil(k);
    w.files = (0..n_files).map(|i| gen_file(rng, i, 8)).collect();
    w.threads = *rng.pick(&[2usize, 2, 3]);
    w.partition = vec![vec![]; w.threads];
    let skew = rng.chance(1, 2);
    for f in 0..n_files {
        // even shares, or one thread with nearly everything and the others with a handful near the end
        let t = if skew { if f % 97 == 0 { 1 + rng.usize_below(w.threads - 1) } else { 0 } } else { rng.usize_below(w.threads) };
        w.partition[t].push(f);
    }
    w.dynamic_assignment = false;
    w.max_chunks = *rng.pick(&[1usize, 2]);
    w.buffer_cap = *rng.pick(&[None, Some(4096), Some(4096), Some(1024)]);
    w.stall_large_writes = None;
    w
}

/// Integer literals between 1 000 and 1 100 000 in the program's definitions (the text in front of
/// `(dynamic-wind`), outside strings and symbols, that do not occur in the expression.
pub fn definition_thresholds(program: &str, expr: &str) -> Vec<u64> {
    let defs = &program[..program.find("(dynamic-wind").unwrap_or(0)];
    let cs: Vec<char> = defs.chars().collect();
    let mut out = vec![];
    let mut i = 0;
    while i < cs.len() {
        match cs[i] {
            '"' => {
                i += 1;
                while i < cs.len() && cs[i] != '"' {
                    i += if cs[i] == '\\' { 2 } else { 1 };
                }
                i += 1;
            }
            '#' if cs.get(i + 1) == Some(&'\\') => {
                // a character literal: #\x1e, #\a, #\(
                i += 3;
                while i < cs.len() && cs[i].is_alphanumeric() {
                    i += 1;
                }
            }
            c if c.is_ascii_digit() && (i == 0 || matches!(cs[i - 1], ' ' | '(' | '\n' | '\t')) => {
                let start = i;
                while i < cs.len() && cs[i].is_ascii_digit() {
                    i += 1;
                }
                if i == cs.len() || matches!(cs[i], ' ' | ')' | '\n' | '\t') {
                    let text: String = cs[start..i].iter().collect();
                    if let Ok(n) = text.parse::<u64>() {
                        if (1_000..=1_100_000).contains(&n) && !expr.contains(&text) && !out.contains(&n) {
                            out.push(n);
                        }
                    }
                }
            }
            _ => i += 1,
        }
    }
    out.sort();
    out
}

/// The workload `w` over a scan of a little more than `n` files on two threads.
fn threshold_workload(w: &Workload, n: u64, rng: &mut Rng) -> Workload {
    let mut t = w.clone();
    let n_files = n as usize + 1 + rng.usize_below(64);
    t.files = (0..n_files)
        .map(|i| {
            let mut f = gen_file(rng, i % 4096, 8);
            f.rel_path = format!("d{}/file{i}", i % 97);
            f.abs_path = format!("/mnt/lustre/{}", f.rel_path);
            f.name = format!("file{i}");
            f.xattrs.clear();
            f
        })
        .collect();
    t.threads = 2;
    t.partition = vec![vec![]; 2];
    for f in 0..n_files {
        t.partition[rng.usize_below(2)].push(f);
    }
    t.dynamic_assignment = false;
    t.max_chunks = 1;
    t.buffer_cap = *rng.pick(&[Some(4096), Some(4096), Some(1024), None]);
    t.stall_large_writes = None;
    t.probe = w.probe;
    t
}

pub fn workload(rng: &mut Rng, tier: Tier) -> Workload {
    if rng.chance(1, 4_000) {
        return many_records_workload(rng, tier);
    }
    if rng.chance(1, 2000) {
        return volume_workload(rng, tier, true);
    }
    if rng.chance(1, if tier == Tier::Thorough { 250 } else { 400 }) {
        return volume_workload(rng, tier, false);
    }
    workload_inner(rng, tier, false)
}

fn workload_inner(rng: &mut Rng, tier: Tier, volume: bool) -> Workload {
    let framed_pool = [
        ActionKind::Print,
        ActionKind::Print0,
        ActionKind::FPrint,
        ActionKind::FPrint0,
        ActionKind::PrintfNl,
        ActionKind::PrintfRaw,
        ActionKind::FPrintf,
    ];
    let plain_pool = [ActionKind::Print, ActionKind::PrintfNl];
    let plain = rng.chance(1, 3);
    let n_actions = match rng.below(16) {
        0 | 1 => 1,
        2..=6 => 2,
        7..=11 => 3,
        12 | 13 => 4,
        14 => rng.range(5, 8) as usize,
        _ => {
            if tier == Tier::Thorough {
                rng.range(8, 14) as usize
            } else {
                rng.range(5, 9) as usize
            }
        }
    };
    let mut actions: Vec<ActionKind> =
        (0..n_actions).map(|_| if plain { *rng.pick(&plain_pool) } else { *rng.pick(&framed_pool) }).collect();
    if !plain && rng.chance(1, 6) {
        // every kind of file action on one file name (file_pool = 1 below)
        actions = vec![ActionKind::FPrint, ActionKind::FPrint0, ActionKind::FPrintf];
        if rng.chance(1, 2) {
            actions.push(*rng.pick(&framed_pool));
        }
        rng.shuffle(&mut actions);
    }
    let one_file = actions.iter().filter(|a| matches!(a, ActionKind::FPrint | ActionKind::FPrint0 | ActionKind::FPrintf)).count() >= 3 && rng.chance(1, 2);
    if rng.chance(3, 20) {
        actions.push(ActionKind::Quit);
    }
    // probes: constructs the pinned compiler refuses (`-ls`, `-fls`) or emits unreadably (`\c`)
    let mut probe = false;
    if rng.chance(1, 60) {
        probe = true;
        let at = rng.usize_below(actions.len() + 1);
        actions.insert(at, if plain || rng.chance(1, 2) { ActionKind::Ls } else { ActionKind::FLs });
    }
    let risky = rng.chance(1, 100);
    probe |= risky;
    let bare = volume || rng.chance(1, 3);
    // many definitions in front of the printers push the tag numbers up (two hex digits, the
    // separator's own code 0x1e, beyond 0xff)
    let many = rng.chance(1, if tier == Tier::Thorough { 8 } else { 25 });
    let cfg = GenCfg {
        matchers: if many { *rng.pick(&[7usize, 14, 15, 40, 70, 130]) } else if bare { 0 } else { rng.range(0, 4) as usize },
        pattern_pool: if many { 400 } else { 8 },
        time_tests: if bare { 0 } else { rng.below(2) as usize },
        fillers: if bare { 0 } else { rng.range(0, 3) as usize },
        actions,
        file_pool: if one_file { 1 } else { rng.range(1, 3) as usize },
        file_base: rng.usize_below(24),
        leading_options: rng.chance(1, 6),
        misplaced_option: false,
        allow_or: rng.chance(2, 3),
        allow_list: rng.chance(1, 3),
        allow_not: rng.chance(1, 2),
        formats_have_path: rng.chance(3, 4),
        rich_formats: rng.chance(1, 3),
        likely_true: *rng.pick(&[4, 4, 3, 3, 2]),
        unsupported: 0,
        placeholder_strings: false,
        risky_specials: risky,
        layout_variants: false,
        hostile_strings: false,
    };
    // one workload in 150 is a report: 9-65 output files, one per value of a test
    let expr = if !volume && rng.chance(1, 150) { gen::report_expression(rng) } else { gen::expression(rng, &cfg) };
    // syntax only a changed tree knows may or may not parse the way it is tried: set aside, not drift
    probe |= gen::uses_new_words(&expr);
    // one workload in 12 is wide: more scanner threads and files than any fixed-size pool of
    // per-thread slots (4, 8, 16) a generated program might keep
    let wide = !volume && rng.chance(1, 12);
    let n_files = if wide { rng.range(8, 40) as usize } else { rng.range(1, 8) as usize };
    let files: Vec<FileRec> = (0..n_files).map(|i| gen_file(rng, i, cfg.pattern_pool)).collect();
    // (28 entries is where a Guile hash table keyed by the scanner thread is resized for the first time)
    let threads = if wide { *rng.pick(&[5usize, 6, 8, 9, 12, 16, 17, 28, 29, 33, 40]) } else { *rng.pick(&[2usize, 2, 3, 3, 4]) };
    let n_files = if threads >= 28 { n_files.max(threads + rng.range(0, 12) as usize) } else { n_files };
    let files: Vec<FileRec> = if files.len() == n_files { files } else { (0..n_files).map(|i| gen_file(rng, i, cfg.pattern_pool)).collect() };
    let mut partition = vec![vec![]; threads];
    for f in 0..n_files {
        // a very wide workload gives every scanner thread something to do
        let t = if threads >= 28 && f < threads { f } else { rng.usize_below(threads) };
        partition[t].push(f);
    }
    Workload {
        expr,
        files,
        threads,
        partition,
        max_chunks: *rng.pick(&[1, 1, 2, 3]),
        chunk_seed: rng.next_u64(),
        hash_key: rng.next_u64(),
        buffer_cap: *rng.pick(&[None, None, None, Some(8), Some(40), Some(300), Some(4096)]),
        flush_resets_first: rng.chance(1, 2),
        table_buckets: *rng.pick(&[1usize, 1, 2, 7]),
        probe,
        stall_large_writes: None,
        dynamic_assignment: rng.chance(1, 2),
    }
}

/// parse + compile + render with the real library, on a thread whose clock and hash keys the
/// simulator owns (so the program text is a pure function of the workload).
pub fn compile_program(expr: &str, hash_key: u64) -> Result<Result<(String, Option<Vec<u32>>), String>, String> {
    let env = seam::new_env(COMPILE_CLOCK);
    let expr = expr.to_string();
    let h = std::thread::Builder::new()
        .stack_size(8 << 20)
        .spawn(move || {
            let _g = seam::enter(&env, hash_key);
            std::panic::catch_unwind(|| {
                let (opts, tree) = lipe_find_parser::parse(&expr).map_err(|e| format!("parse error: {e}"))?;
                let c = lipe_find_parser::compile(&tree, &opts).map_err(|e| format!("compile error: {e}"))?;
                let keys = c.io_map().map(|m| {
                    let mut k: Vec<u32> = m.keys().copied().collect();
                    k.sort();
                    k
                });
                Ok::<_, String>((c.scheme("/dev/sim0"), keys))
            })
        })
        .map_err(|e| format!("spawn: {e}"))?;
    match h.join() {
        Ok(Ok(r)) => Ok(r),
        Ok(Err(_)) | Err(_) => Ok(Err("panic in parse/compile/scheme".into())),
    }
}

#[derive(Clone, Debug, PartialEq)]
pub struct Violation {
    pub class: String,
    pub detail: String,
}

pub enum Prep {
    Ready(Box<Prepared>),
    /// the workload does not compile (generator drift): set aside and counted
    Discard(String),
    Harness(String),
    Violation(Violation),
}

pub struct Prepared {
    pub program: String,
    pub forms: Vec<Sexp>,
    pub io_keys: Option<Vec<u32>>,
    /// per file, per destination: the characters the sequential run wrote
    pub ref_chars: Vec<BTreeMap<String, String>>,
    /// sequential events per file (estimate of steps)
    pub seq_events: usize,
    pub printer_calls_per_file: Vec<usize>,
    pub uses_runtime_print: bool,
    /// per destination: the whole stream of the sequential scan over all files
    pub ref_streams: BTreeMap<String, String>,
    /// per destination: record balance of scans over a subset of the files, computed on demand
    /// (only needed when a break kept some files from being started)
    subset_cache: Mutex<BTreeMap<Vec<usize>, BTreeMap<String, String>>>,
}

/// Run a sequential evaluation on a thread with a large stack (deeply nested policies, dev profile).
fn on_big_stack<T: Send>(f: impl FnOnce() -> T + Send) -> T {
    std::thread::scope(|s| {
        std::thread::Builder::new()
            .stack_size(if cfg!(debug_assertions) { 256 << 20 } else { 64 << 20 })
            .spawn_scoped(s, f)
            .expect("spawn evaluation thread")
            .join()
            .unwrap_or_else(|p| std::panic::resume_unwind(p))
    })
}

/// The reference run of a program: one scanner thread over the files of `knobs.partition[0]`. A
/// plain sequential evaluation, unless the program creates threads of its own or waits on a
/// condition variable: then the same single scanner thread runs under the controlled scheduler
/// (fixed seed), next to the program's own threads.
fn reference_run(w: &Workload, forms: &[Sexp], knobs: Knobs) -> (Arc<Runtime>, Result<(), EvalErr>) {
    let rt = Arc::new(Runtime::new(false, w.files.clone(), knobs.clone()));
    let r = on_big_stack(|| rt.run_program(forms));
    let in_policy = rt.log.lock().unwrap().iter().any(|e| matches!(e, Ev::Error { error: EvalErr::Runtime(m), .. } if m == crate::eval::NEEDS_THREADS));
    if !in_policy && !matches!(&r, Err(EvalErr::Runtime(m)) if m == crate::eval::NEEDS_THREADS) {
        return (rt, r);
    }
    let rt = Arc::new(Runtime::new(true, w.files.clone(), knobs));
    let result: Arc<Mutex<Option<Result<(), EvalErr>>>> = Arc::new(Mutex::new(None));
    let (scheduler, shared) = SimScheduler::new(Strategy::Sticky { stay: 90 }, 0x5EED);
    *rt.sched.lock().unwrap() = Some(shared);
    let mut config = shuttle::Config::new();
    config.stack_size = if cfg!(debug_assertions) { 64 << 20 } else { 8 << 20 };
    config.failure_persistence = shuttle::FailurePersistence::None;
    config.max_steps = shuttle::MaxSteps::FailAfter(2_000_000);
    config.silence_warnings = true;
    let runner = shuttle::Runner::new(scheduler, config);
    let (rt2, res2, forms2) = (rt.clone(), result.clone(), forms.to_vec());
    let _quiet = QuietStderr::new();
    let outcome = std::panic::catch_unwind(std::panic::AssertUnwindSafe(|| {
        runner.run(move || {
            let r = rt2.run_program(&forms2);
            *res2.lock().unwrap() = Some(r);
        })
    }));
    let r = match outcome {
        Ok(_) => result.lock().unwrap().take().unwrap_or(Ok(())),
        Err(_) => Err(EvalErr::Runtime("the reference run with one scanner thread did not finish (deadlock or no progress)".into())),
    };
    (rt, r)
}

/// Streams per destination of a sequential scan over `subset` (in that order) of the files.
fn sequential_streams(w: &Workload, forms: &[Sexp], subset: &[usize]) -> Result<BTreeMap<String, String>, EvalErr> {
    let mut knobs = knobs_for(w, true);
    knobs.partition = vec![subset.to_vec()];
    let (rt, r) = reference_run(w, forms, knobs);
    r?;
    let dests = rt.destinations();
    let mut out: BTreeMap<String, String> = BTreeMap::new();
    for e in rt.log.lock().unwrap().iter() {
        if let Ev::Write { port, chars, .. } = e {
            out.entry(dest_of(&dests, *port)).or_default().push_str(chars);
        }
    }
    Ok(out)
}

impl Prepared {
    /// What a scan that started exactly the files in `started` must deliver on destination `d`,
    /// as a list of streams whose records are to be added up (and a list to subtract): the
    /// sequential scan over all files if all were started; otherwise the sequential scan over
    /// exactly the started files (a break only keeps NEW files from being started, so every
    /// started file is evaluated as in a scan without break). A summary written at the end of the
    /// scan (a count of matches) is then what it must be for that set of files.
    fn expected_streams(&self, w: &Workload, started: &BTreeSet<usize>, d: &str) -> (Vec<String>, Vec<String>) {
        if started.len() == w.files.len() {
            return (vec![self.ref_streams.get(d).cloned().unwrap_or_default()], vec![]);
        }
        let subset: Vec<usize> = started.iter().copied().collect();
        let mut cache = self.subset_cache.lock().unwrap();
        if !cache.contains_key(&subset) {
            if cache.len() > 64 {
                cache.clear();
            }
            let streams = sequential_streams(w, &self.forms, &subset).unwrap_or_default();
            cache.insert(subset.clone(), streams);
        }
        (vec![cache[&subset].get(d).cloned().unwrap_or_default()], vec![])
    }
}

fn knobs_for(w: &Workload, sequential: bool) -> Knobs {
    if sequential {
        Knobs {
            threads: 1,
            partition: vec![(0..w.files.len()).collect()],
            max_chunks: 1,
            chunk_seed: 0,
            honour_break: false,
            buffer_cap: w.buffer_cap,
            flush_resets_first: w.flush_resets_first,
            table_buckets: w.table_buckets,
            stall_large_writes: None,
            dynamic_assignment: false,
        }
    } else {
        Knobs {
            threads: w.threads,
            partition: w.partition.clone(),
            max_chunks: w.max_chunks,
            chunk_seed: w.chunk_seed,
            honour_break: true,
            buffer_cap: w.buffer_cap,
            flush_resets_first: w.flush_resets_first,
            table_buckets: w.table_buckets,
            stall_large_writes: w.stall_large_writes,
            dynamic_assignment: w.dynamic_assignment,
        }
    }
}

fn dest_of(dests: &[String], port: usize) -> String {
    dests.get(port).cloned().unwrap_or_else(|| format!("port{port}?"))
}

pub fn prepare(w: &Workload) -> Prep {
    let (program, io_keys) = match compile_program(&w.expr, w.hash_key) {
        Err(e) => return Prep::Harness(e),
        Ok(Err(e)) => return Prep::Discard(e),
        Ok(Ok(r)) => r,
    };
    prepare_program(w, program, io_keys)
}

/// Reference run of a given program text (the text normally comes from the real compiler; the
/// stub's self-tests pass hand-written programs).
pub fn prepare_program(w: &Workload, program: String, io_keys: Option<Vec<u32>>) -> Prep {
    let forms = match read_all(&program) {
        Ok(f) => f,
        // a format escape the code generator passed through verbatim: the program cannot be
        // loaded at all, which is not this property's subject; set aside and counted
        Err(e) if e.contains("unknown string escape") => return Prep::Discard(format!("unreadable program: {e}")),
        Err(e) => return Prep::Harness(format!("emitted program of a benign workload is unreadable: {e}\n{program}")),
    };
    let (rt, first_run) = reference_run(w, &forms, knobs_for(w, true));
    match first_run.map_err(EvalErr::settle) {
        Ok(()) => {}
        Err(EvalErr::Unsupported(e)) => return Prep::Harness(format!("stub runtime cannot evaluate the program: {e}\n{program}")),
        // An error even on one thread is this property's business only when it is about a mutex (a
        // relock, an unlock by a thread that does not hold it: the degenerate deadlock). Any other
        // error — a type, an arity, an unbound name — means the program is broken for every
        // schedule, which other properties speak about, or that the stub is stricter than Guile:
        // set aside and counted like a workload that does not compile.
        Err(EvalErr::Runtime(e)) | Err(EvalErr::Thrown(e, _)) if !e.contains("mutex") => {
            return Prep::Discard(format!("the emitted program raises an error even on one thread: {e}"));
        }
        Err(EvalErr::Runtime(e)) | Err(EvalErr::Thrown(e, _)) => {
            return Prep::Violation(Violation {
                class: "program-raises-error-sequentially".into(),
                detail: format!("the emitted program raises an error before or after the scan even on one thread: {e}"),
            })
        }
        Err(EvalErr::TailCall(_)) => return Prep::Harness("internal: tail call escaped its procedure".into()),
    }
    let log = rt.log.lock().unwrap().clone();
    let dests = rt.destinations();
    let mut ref_chars: Vec<BTreeMap<String, String>> = vec![BTreeMap::new(); w.files.len()];
    let mut calls = vec![0usize; w.files.len()];
    let mut uses_runtime_print = false;
    for e in &log {
        match e {
            Ev::Write { file, port, chars, .. } if *file != NO_FILE => {
                ref_chars[*file].entry(dest_of(&dests, *port)).or_default().push_str(chars);
            }
            Ev::PrinterCall { file, .. } if *file != NO_FILE => calls[*file] += 1,
            Ev::RuntimePrint { .. } => uses_runtime_print = true,
            Ev::Error { error: EvalErr::Unsupported(e), .. } => {
                return Prep::Harness(format!("stub runtime cannot evaluate the policy: {e}\n{program}"))
            }
            Ev::Error { error: EvalErr::Runtime(e), .. } | Ev::Error { error: EvalErr::Thrown(e, _), .. } if !e.contains("mutex") => {
                return Prep::Discard(format!("the policy raises an error even on one thread: {e}"));
            }
            Ev::Error { error: EvalErr::Runtime(e), file, .. } | Ev::Error { error: EvalErr::Thrown(e, _), file, .. } => {
                return Prep::Violation(Violation {
                    class: "policy-raises-error-sequentially".into(),
                    detail: format!("evaluating the policy on file {file} raises an error even on one thread: {e}"),
                })
            }
            _ => {}
        }
    }
    // the sequential framed stream must itself decode (benign payloads never contain U+001E)
    if io_keys.is_some() {
        for (f, per) in ref_chars.iter().enumerate() {
            if let Some(s) = per.get("stdout") {
                if decode_frames_plain(s).is_none() {
                    return Prep::Harness(format!("sequential framed output of file {f} does not decode: {s:?}"));
                }
            }
        }
        // frame count = number of frames of the sequential run
        for (f, per) in ref_chars.iter().enumerate() {
            calls[f] = per.get("stdout").and_then(|s| decode_frames_plain(s)).map(|v| v.len()).unwrap_or(0);
        }
    }
    let mut ref_streams: BTreeMap<String, String> = BTreeMap::new();
    for e in &log {
        if let Ev::Write { port, chars, .. } = e {
            ref_streams.entry(dest_of(&dests, *port)).or_default().push_str(chars);
        }
    }
    if io_keys.is_some() {
        if let Some(s) = ref_streams.get("stdout") {
            if decode_frames_plain(s).is_none() {
                return Prep::Harness(format!("sequential framed output does not decode: {s:?}"));
            }
        }
    }
    Prep::Ready(Box::new(Prepared {
        program,
        forms,
        io_keys,
        ref_chars,
        seq_events: log.len(),
        printer_calls_per_file: calls,
        uses_runtime_print,
        ref_streams,
        subset_cache: Mutex::new(BTreeMap::new()),
    }))
}

fn decode_frames_plain(s: &str) -> Option<Vec<(String, char)>> {
    let mut out = vec![];
    let mut payload = String::new();
    let mut it = s.chars();
    while let Some(c) = it.next() {
        if c == SEP {
            let tag = it.next()?;
            out.push((std::mem::take(&mut payload), tag));
        } else {
            payload.push(c);
        }
    }
    if payload.is_empty() {
        Some(out)
    } else {
        None
    }
}

pub struct Exec {
    pub log: Vec<Ev>,
    pub dests: Vec<String>,
    pub choices: Vec<u32>,
    pub panic: Option<String>,
    pub diverged: bool,
    pub contended: u64,
}

/// shuttle reports deadlocks and failed tasks on stderr before it panics; those are expected
/// outcomes here (they become verdicts), so stderr is parked on /dev/null for the duration of an
/// execution.
struct QuietStderr {
    saved: i32,
}

extern "C" {
    fn dup(fd: i32) -> i32;
    fn dup2(from: i32, to: i32) -> i32;
    fn close(fd: i32) -> i32;
}

impl QuietStderr {
    fn new() -> Option<QuietStderr> {
        if std::env::var_os("VERIF_KEEP_STDERR").is_some() {
            return None;
        }
        let null = std::fs::OpenOptions::new().write(true).open("/dev/null").ok()?;
        use std::os::fd::AsRawFd;
        unsafe {
            let saved = dup(2);
            if saved < 0 {
                return None;
            }
            dup2(null.as_raw_fd(), 2);
            Some(QuietStderr { saved })
        }
    }
}

impl Drop for QuietStderr {
    fn drop(&mut self) {
        unsafe {
            dup2(self.saved, 2);
            close(self.saved);
        }
    }
}

/// One execution of the program on scanner threads under `strategy`.
pub fn execute(w: &Workload, prep: &Prepared, strategy: Strategy, seed: u64) -> Exec {
    let rt = Arc::new(Runtime::new(true, w.files.clone(), knobs_for(w, false)));
    let forms = Arc::new(prep.forms.clone());
    let result: Arc<Mutex<Option<Result<(), EvalErr>>>> = Arc::new(Mutex::new(None));
    let (scheduler, shared) = SimScheduler::new(strategy, seed);
    *rt.sched.lock().unwrap() = Some(shared.clone());
    let mut config = shuttle::Config::new();
    // scanner threads evaluate the policy recursively: a report with hundreds of alternatives nests
    // deeply, and frames are several times larger without optimisation
    config.stack_size = if cfg!(debug_assertions) { 64 << 20 } else { 8 << 20 };
    config.failure_persistence = shuttle::FailurePersistence::None;
    config.max_steps = shuttle::MaxSteps::FailAfter(step_cap(prep));
    config.silence_warnings = true;
    let runner = shuttle::Runner::new(scheduler, config);
    let (rt2, res2) = (rt.clone(), result.clone());
    let _quiet = QuietStderr::new();
    let outcome = std::panic::catch_unwind(std::panic::AssertUnwindSafe(|| {
        runner.run(move || {
            let r = rt2.run_program(&forms);
            *res2.lock().unwrap() = Some(r);
        })
    }));
    let mut panic = match outcome {
        Ok(_) => None,
        Err(p) => Some(if let Some(s) = p.downcast_ref::<String>() {
            s.clone()
        } else if let Some(s) = p.downcast_ref::<&str>() {
            s.to_string()
        } else {
            "panic".to_string()
        }),
    };
    let mut log = rt.log.lock().unwrap_or_else(|e| e.into_inner()).clone();
    if panic.is_none() {
        if let Some(Err(e)) = result.lock().unwrap().take() {
            log.push(Ev::Error { thread: 0, file: NO_FILE, error: e });
        }
    } else if let Some(p) = &panic {
        // keep only the first line of shuttle's message
        panic = Some(p.lines().next().unwrap_or("panic").to_string());
    }
    let choices = shared.choices.lock().unwrap().clone();
    Exec {
        log,
        dests: rt.destinations(),
        choices,
        panic,
        diverged: shared.diverged.load(Ordering::SeqCst),
        contended: rt.contended.load(Ordering::SeqCst),
    }
}

#[derive(Default, Debug)]
pub struct Metrics {
    pub trace_hash: u64,
    pub thread_switches: u64,
    pub unprotected_shared_writes: bool,
    pub breaks_fired: u64,
    pub breaks_with_other_thread_mid_record: u64,
    pub records: u64,
    pub chunk_splits: u64,
    pub files_skipped_by_break: u64,
}

pub enum Verdict {
    Ok,
    Violation(Violation),
    Harness(String),
}

fn show(s: &str) -> String {
    let mut out: String = s.chars().take(120).collect();
    if s.chars().count() > 120 {
        out.push_str("...");
    }
    format!("{out:?}")
}

pub fn judge(w: &Workload, prep: &Prepared, ex: &Exec) -> (Verdict, Metrics) {
    let mut m = Metrics::default();
    let vio = |class: &str, detail: String| Verdict::Violation(Violation { class: class.into(), detail });

    // ---- O5: deadlock / bounded progress
    if let Some(p) = &ex.panic {
        if p.contains("deadlock") {
            return (vio("deadlock", format!("scanner threads deadlock: {p}")), m);
        }
        if p.contains("max_steps") {
            return (vio("no-progress", format!("the scan did not finish within the step cap ({} scheduler steps): {p}", step_cap(prep))), m);
        }
        return (Verdict::Harness(format!("unexpected panic inside the simulated execution: {p}")), m);
    }

    // ---- metrics and runtime errors
    let mut words = vec![];
    let mut last_thread = None;
    let mut held: BTreeMap<usize, BTreeSet<usize>> = BTreeMap::new();
    let mut started: BTreeSet<usize> = BTreeSet::new();
    let mut writers: BTreeMap<String, BTreeSet<usize>> = BTreeMap::new();
    let mut common: BTreeMap<String, Option<BTreeSet<usize>>> = BTreeMap::new();
    for e in &ex.log {
        let (thread, code, id) = match e {
            Ev::Lock { thread, mutex } => {
                held.entry(*thread).or_default().insert(*mutex);
                (*thread, 1u64, *mutex as u64)
            }
            Ev::Unlock { thread, mutex } => {
                held.entry(*thread).or_default().remove(mutex);
                (*thread, 2, *mutex as u64)
            }
            Ev::PortOp { thread, port } => {
                if *thread != 0 {
                    let d = dest_of(&ex.dests, *port);
                    writers.entry(d.clone()).or_default().insert(*thread);
                    let h = held.get(thread).cloned().unwrap_or_default();
                    let c = common.entry(d).or_insert(None);
                    *c = Some(match c.take() {
                        None => h,
                        Some(prev) => prev.intersection(&h).copied().collect(),
                    });
                }
                continue;
            }
            Ev::Write { thread, port, .. } => (*thread, 3, *port as u64),
            Ev::FileStart { thread, file } => {
                started.insert(*file);
                (*thread, 4, *file as u64)
            }
            Ev::FileEnd { thread, file } => (*thread, 5, *file as u64),
            Ev::Break { thread, .. } => {
                m.breaks_fired += 1;
                if held.iter().any(|(t, s)| t != thread && !s.is_empty()) {
                    m.breaks_with_other_thread_mid_record += 1;
                }
                (*thread, 6, 0)
            }
            Ev::Error { thread, file, error } => match error {
                EvalErr::Unsupported(e) => return (Verdict::Harness(format!("stub runtime cannot evaluate: {e}")), m),
                EvalErr::TailCall(_) => return (Verdict::Harness("internal: tail call escaped its procedure".into()), m),
                EvalErr::Runtime(e) | EvalErr::Thrown(e, _) => {
                    return (
                        vio(
                            "runtime-error-under-concurrency",
                            format!("thread {thread}, file {file}: {e} (the sequential run of the same program raises no error)"),
                        ),
                        m,
                    )
                }
            },
            _ => continue,
        };
        if thread != 0 {
            if let Some(l) = last_thread {
                if l != thread {
                    m.thread_switches += 1;
                }
            }
            last_thread = Some(thread);
        }
        words.push(thread as u64 * 1_000_003 + code * 1009 + id);
    }
    m.trace_hash = mix(&words);
    m.files_skipped_by_break = (w.files.len() - started.len()) as u64;
    for (d, ts) in &writers {
        if ts.len() >= 2 && common.get(d).and_then(|c| c.as_ref()).map_or(true, |c| c.is_empty()) {
            m.unprotected_shared_writes = true;
        }
    }

    // ---- per destination: integrity of the stream
    let mut all_dests: BTreeSet<String> = ex.dests.iter().cloned().collect();
    for per in &prep.ref_chars {
        all_dests.extend(per.keys().cloned());
    }
    for d in &all_dests {
        // (thread, file, call, chars) in arrival order
        let evs: Vec<(usize, usize, u64, &str)> = ex
            .log
            .iter()
            .filter_map(|e| match e {
                Ev::Write { thread, file, port, chars, call } if dest_of(&ex.dests, *port) == *d => Some((*thread, *file, *call, chars.as_str())),
                _ => None,
            })
            .collect();
        let stream: String = evs.iter().map(|e| e.3).collect();
        // provenance per character
        let mut prov: Vec<usize> = Vec::with_capacity(stream.len());
        for (_, file, _, chars) in &evs {
            for _ in chars.chars() {
                prov.push(*file);
            }
        }
        let framed = prep.io_keys.is_some() && d == "stdout";
        let chars: Vec<char> = stream.chars().collect();
        let files_of = |a: usize, b: usize| -> BTreeSet<usize> { prov[a..b].iter().copied().filter(|f| *f != NO_FILE).collect() };
        // what sequential scans of the same program deliver for the files that were started
        let (plus_refs, minus_refs) = prep.expected_streams(w, &started, d);
        if framed {
            // O1: the stream is a sequence of complete frames with known tags
            let keys = prep.io_keys.as_ref().unwrap();
            let mut got: Vec<(String, char, usize, usize)> = vec![];
            let mut i = 0;
            let mut frame_start = 0;
            while i < chars.len() {
                if chars[i] == SEP {
                    if i + 1 >= chars.len() {
                        return (vio("torn-frame", format!("destination {d}: the stream ends after a separator, the tag is missing; tail {}", show(&chars[frame_start..].iter().collect::<String>()))), m);
                    }
                    let tag = chars[i + 1];
                    if !keys.contains(&(tag as u32)) {
                        return (vio("unknown-tag", format!("destination {d}: frame tag {:#x} is not a key of the destination table {keys:?}", tag as u32)), m);
                    }
                    got.push((chars[frame_start..i].iter().collect(), tag, frame_start, i + 2));
                    m.records += 1;
                    i += 2;
                    frame_start = i;
                } else {
                    i += 1;
                }
            }
            if frame_start != chars.len() {
                return (vio("torn-frame", format!("destination {d}: the stream ends inside a frame: {}", show(&chars[frame_start..].iter().collect::<String>()))), m);
            }
            // O2: the multiset of frames equals what the threads emitted
            let mut balance: BTreeMap<(String, char), i64> = BTreeMap::new();
            for (refs, sign) in [(&plus_refs, -1i64), (&minus_refs, 1)] {
                for r in refs.iter() {
                    for (payload, tag) in decode_frames_plain(r).unwrap_or_default() {
                        *balance.entry((payload, tag)).or_insert(0) += sign;
                    }
                }
            }
            for (payload, tag, _, _) in &got {
                *balance.entry((payload.clone(), *tag)).or_insert(0) += 1;
            }
            if let Some(((payload, tag), n)) = balance.iter().find(|(_, n)| **n > 0) {
                let files = match got.iter().find(|g| g.0 == *payload && g.1 == *tag) {
                    Some((_, _, a, b)) => files_of(*a, *b),
                    None => BTreeSet::new(),
                };
                let class = if files.len() > 1 { "mixed-frame" } else { "records-lost-or-altered" };
                return (
                    vio(
                        class,
                        format!(
                            "destination {d}: frame {} (tag {:#x}) arrives {} time(s) more often than the threads emitted it{}",
                            show(payload),
                            *tag as u32,
                            n,
                            if files.len() > 1 { format!("; it mixes output of files {files:?}") } else { String::new() }
                        ),
                    ),
                    m,
                );
            }
            if let Some(((payload, tag), n)) = balance.iter().find(|(_, n)| **n < 0) {
                return (
                    vio("records-lost-or-altered", format!("destination {d}: frame {} (tag {:#x}) was emitted but is missing {} time(s) from the stream", show(payload), *tag as u32, -n)),
                    m,
                );
            }
        } else {
            let all_nl = prep.ref_streams.get(d).map_or(true, |s| s.is_empty() || s.ends_with('\n'))
                && prep.ref_chars.iter().filter_map(|p| p.get(d)).all(|s| s.is_empty() || s.ends_with('\n'));
            // is some printer invocation's output interrupted on this destination? (diagnostic)
            let mut seen_calls: BTreeMap<u64, usize> = BTreeMap::new();
            let mut interrupted: Option<String> = None;
            for (k, (_, _, call, _)) in evs.iter().enumerate() {
                if *call == 0 {
                    continue;
                }
                if let Some(prev) = seen_calls.get(call) {
                    if *prev + 1 != k && interrupted.is_none() {
                        let between: Vec<String> = evs[*prev + 1..k].iter().map(|e| format!("thread {} wrote {}", e.0, show(e.3))).collect();
                        interrupted = Some(format!("a record of thread {} (file {}) is interrupted: {}", evs[k].0, evs[k].1, between.join("; ")));
                    }
                }
                seen_calls.insert(*call, k);
            }
            m.records += seen_calls.len() as u64;
            if all_nl {
                // plain mode proper: a sequence of complete terminated lines whose multiset equals
                // what the threads emitted
                if !chars.is_empty() && *chars.last().unwrap() != '\n' {
                    let start = chars.iter().rposition(|c| *c == '\n').map(|p| p + 1).unwrap_or(0);
                    return (vio("torn-line", format!("destination {d}: the stream ends with an unterminated line {}", show(&chars[start..].iter().collect::<String>()))), m);
                }
                let mut balance: BTreeMap<String, i64> = BTreeMap::new();
                for (refs, sign) in [(&plus_refs, -1i64), (&minus_refs, 1)] {
                    for r in refs.iter() {
                        for line in r.split_inclusive('\n') {
                            *balance.entry(line.to_string()).or_insert(0) += sign;
                        }
                    }
                }
                let mut spans: Vec<(String, usize, usize)> = vec![];
                let mut start = 0;
                for (i, c) in chars.iter().enumerate() {
                    if *c == '\n' {
                        let line: String = chars[start..=i].iter().collect();
                        *balance.entry(line.clone()).or_insert(0) += 1;
                        spans.push((line, start, i + 1));
                        start = i + 1;
                    }
                }
                if let Some((line, _)) = balance.iter().find(|(_, n)| **n > 0) {
                    let (_, a, b) = spans.iter().find(|s| s.0 == *line).unwrap();
                    let files = files_of(*a, *b);
                    let (class, why) = if files.len() > 1 {
                        ("mixed-line", format!("it mixes output of files {files:?}"))
                    } else if let Some(i) = &interrupted {
                        ("torn-line", i.clone())
                    } else {
                        ("records-lost-or-altered", "no thread emitted it".to_string())
                    };
                    return (vio(class, format!("destination {d}: line {} is not one of the lines the threads emitted: {why}", show(line))), m);
                }
                if let Some((line, n)) = balance.iter().find(|(_, n)| **n < 0) {
                    return (vio("records-lost-or-altered", format!("destination {d}: line {} was emitted but is missing {} time(s) from the stream", show(line), -n)), m);
                }
            } else {
                // records without a terminator cannot be told apart by content: fall back to the
                // provenance of the characters
                if let Some(i) = interrupted {
                    return (vio("torn-line", format!("destination {d}: {i}")), m);
                }
                for f in 0..w.files.len() {
                    let got: String = evs.iter().filter(|e| e.1 == f).map(|e| e.3).collect();
                    let want = if started.contains(&f) { prep.ref_chars[f].get(d).cloned().unwrap_or_default() } else { String::new() };
                    if got != want {
                        return (
                            vio(
                                "records-lost-or-altered",
                                format!("destination {d}, file {f}: the concurrent run delivered {} but the sequential run of the same program delivers {}", show(&got), show(&want)),
                            ),
                            m,
                        );
                    }
                }
                let stray: String = evs.iter().filter(|e| e.1 == NO_FILE).map(|e| e.3).collect();
                if !stray.is_empty() {
                    return (vio("stray-output", format!("destination {d}: output outside any file evaluation: {}", show(&stray))), m);
                }
            }
        }
    }
    for e in &ex.log {
        if let Ev::Write { chars, .. } = e {
            let _ = chars;
            m.chunk_splits += 1;
        }
    }
    (Verdict::Ok, m)
}

fn pick_strategy(rng: &mut Rng, est_steps: usize) -> Strategy {
    match rng.below(10) {
        0..=3 => Strategy::Random,
        4..=6 => Strategy::Sticky { stay: *rng.pick(&[50, 75, 90, 97]) },
        _ => Strategy::Pct { depth: rng.range(1, 4) as usize, est_steps: est_steps.max(4) },
    }
}

fn violation_json(index: u64, w: &Workload, v: &Violation, choices: &[u32], program: &str) -> Value {
    json!({
        "run_index": index,
        "class": v.class,
        "detail": v.detail,
        "workload": w.to_json(),
        "schedule": choices,
        "program": program,
    })
}

/// Executed in a block child process.
pub fn run_block(seed: u64, first: u64, count: u64, tier: Tier) -> Result<BlockResult, String> {
    let mut br = BlockResult { first, count, ..Default::default() };
    let per_program = if tier == Tier::Quick { 6 } else { 12 };
    for index in first..first + count {
        let mut rng = Rng::new(coord::run_seed(seed, ID, index));
        let w = workload(&mut rng, tier);
        let mut digest = vec![hash_str(&w.expr)];
        let prep = match prepare(&w) {
            Prep::Ready(p) => p,
            Prep::Discard(why) => {
                br.bump(if w.probe { "probe_workloads_set_aside" } else { "discarded_runs" }, 1);
                if std::env::var_os("VERIF_SHOW_DISCARDS").is_some() {
                    eprintln!("discarded run {index}: {}", why.chars().take(300).collect::<String>());
                }
                br.digests.push(mix(&[hash_str(&why)]));
                continue;
            }
            // a probe workload uses syntax only a changed tree knows; if the program it compiles to
            // needs a construct the stub does not have, this one workload cannot be decided: it is
            // set aside and counted. For the vocabulary the harness was written for, an unknown
            // construct stops the check (exit 2).
            Prep::Harness(e) if w.probe && e.starts_with("stub runtime cannot evaluate") => {
                br.bump("probe_workloads_set_aside", 1);
                br.bump("probe_workloads_with_constructs_unknown_to_the_stub", 1);
                br.digests.push(mix(&[hash_str("unsupported")]));
                continue;
            }
            Prep::Harness(e) => return Err(format!("run {index}: {e}")),
            Prep::Violation(v) => {
                br.digests.push(mix(&[hash_str(&v.class)]));
                br.violation = Some(violation_json(index, &w, &v, &[], ""));
                break;
            }
        };
        // A number in the program's DEFINITIONS that the expression does not contain is a threshold the
        // generated code set itself ("every 65536 lines", "every millionth inode"): one run index in 150 runs such a program over a scan long
        // enough to cross it, instead of its small workload (a function of the index alone, so
        // that the partition into blocks does not matter).
        let (mut w, mut prep) = (w, prep);
        if index % 150 == 16 {
            if let Some(n) = definition_thresholds(&prep.program, &w.expr).into_iter().next() {
                let wt = threshold_workload(&w, n, &mut rng);
                if let Prep::Ready(pt) = prepare(&wt) {
                    br.bump("threshold_workloads", 1);
                    br.counters.entry("largest_threshold_crossed".into()).and_modify(|v| *v = (*v).max(n)).or_insert(n);
                    w = wt;
                    prep = pt;
                }
            }
        }
        digest.push(hash_str(&prep.program));
        br.bump("programs", 1);
        br.bump(if prep.io_keys.is_some() { "programs_framed" } else { "programs_plain" }, 1);
        if prep.uses_runtime_print {
            br.bump("programs_using_runtime_print", 1);
        }
        let est = prep.seq_events * 2 + 8;
        let mut escalate = false;
        let mut found: Option<(Violation, Vec<u32>)> = None;
        let mut sample_trace: Option<Value> = None;
        let mut k = 0;
        // very long scans (many_records_workload) get two schedules each, not six or twelve
        let mut budget = if prep.seq_events > 300_000 { 2 } else { per_program };
        while k < budget {
            let strategy = pick_strategy(&mut rng, est);
            let sname = strategy.name();
            let ex = execute(&w, &prep, strategy, rng.next_u64());
            let (verdict, m) = judge(&w, &prep, &ex);
            br.bump("executions", 1);
            br.bump(&format!("executions_{sname}"), 1);
            br.bump("scheduler_steps", ex.choices.len() as u64);
            br.bump("thread_switches", m.thread_switches);
            br.bump("lock_attempts_that_found_the_mutex_held", ex.contended);
            br.bump("records_checked", m.records);
            br.bump("chunk_writes", m.chunk_splits);
            br.bump("scan_breaks_fired", m.breaks_fired);
            br.bump("scan_breaks_with_other_thread_mid_record", m.breaks_with_other_thread_mid_record);
            br.bump("files_not_started_because_of_break", m.files_skipped_by_break);
            br.counters.entry("max_steps_seen".into()).and_modify(|v| *v = (*v).max(ex.choices.len() as u64)).or_insert(ex.choices.len() as u64);
            digest.push(m.trace_hash);
            if sample_trace.is_none() && m.thread_switches >= 2 {
                sample_trace = Some(json!({
                    "strategy": sname,
                    "schedule": ex.choices,
                    "first_events": ex.log.iter().take(40).map(|e| format!("{e:?}")).collect::<Vec<_>>(),
                }));
            }
            if m.thread_switches >= 1 {
                br.distinct.push(mix(&[hash_str(&prep.program), m.trace_hash]));
            }
            match verdict {
                Verdict::Ok => {}
                Verdict::Harness(e) => return Err(format!("run {index}: {e}\n{}", prep.program)),
                Verdict::Violation(v) => {
                    digest.push(hash_str(&v.class));
                    found = Some((v, ex.choices.clone()));
                    break;
                }
            }
            if m.unprotected_shared_writes && !escalate {
                // a shared destination is written without one common mutex: not a verdict by
                // itself, but worth a much deeper schedule search on this program
                escalate = true;
                budget += if prep.seq_events > 300_000 { 10 } else { 400 };
                br.bump("programs_escalated_for_unprotected_writes", 1);
            }
            k += 1;
        }
        br.digests.push(mix(&digest));
        if br.samples.is_empty() && w.expr.len() < 200 && sample_trace.is_some() {
            br.samples.push(json!({"run_index": index, "expression": w.expr, "threads": w.threads, "partition": w.partition, "files": w.files.iter().map(|f| f.rel_path.clone()).collect::<Vec<_>>(), "max_chunks": w.max_chunks, "program": prep.program, "one_execution": sample_trace}));
        }
        if let Some((v, choices)) = found {
            br.violation = Some(violation_json(index, &w, &v, &choices, &prep.program));
            break;
        }
    }
    br.distinct.sort();
    br.distinct.dedup();
    Ok(br)
}

/// Replay an explicit (workload, schedule). Returns the violation, if any.
pub fn replay_one(w: &Workload, schedule: &[u32]) -> Result<(Option<Violation>, bool), String> {
    match prepare(w) {
        Prep::Ready(p) => {
            let ex = execute(w, &p, Strategy::Replay(schedule.to_vec()), 0);
            match judge(w, &p, &ex).0 {
                Verdict::Ok => Ok((None, ex.diverged)),
                Verdict::Violation(v) => Ok((Some(v), ex.diverged)),
                Verdict::Harness(e) => Err(e),
            }
        }
        // on this tree the workload is one of those the check sets aside (does not compile, or
        // the emitted program is unreadable): nothing to execute, hence nothing violated
        Prep::Discard(_) => Ok((None, true)),
        Prep::Harness(e) => Err(e),
        Prep::Violation(v) => Ok((Some(v), false)),
    }
}

/// Search schedules of `w` for a violation of `class`. In-process (the stub runtime keeps no
/// global state); the final replay file is validated in a fresh process.
fn search(w: &Workload, class: &str, seed: u64, tries: usize) -> Option<Vec<u32>> {
    let Prep::Ready(p) = prepare(w) else {
        return match prepare(w) {
            Prep::Violation(v) if v.class == class => Some(vec![]),
            _ => None,
        };
    };
    let mut rng = Rng::new(seed);
    for _ in 0..tries {
        let ex = execute(w, &p, pick_strategy(&mut rng, p.seq_events * 2 + 8), rng.next_u64());
        if let Verdict::Violation(v) = judge(w, &p, &ex).0 {
            if v.class == class {
                return Some(ex.choices);
            }
        }
    }
    None
}

fn fails_with(w: &Workload, schedule: &[u32], class: &str) -> bool {
    matches!(replay_one(w, schedule), Ok((Some(v), _)) if v.class == class)
}

fn switches(s: &[u32]) -> usize {
    s.windows(2).filter(|w| w[0] != w[1]).count()
}

pub fn minimise(w0: &Workload, schedule0: &[u32], class: &str, seed: u64) -> (Workload, Vec<u32>, u64) {
    let mut w = w0.clone();
    let mut schedule = schedule0.to_vec();
    let mut tests = 0u64;
    // minimisation is best effort under a wall-clock budget (it does not influence the verdict):
    // large workloads get fewer schedule searches per candidate
    let deadline = std::time::Instant::now() + std::time::Duration::from_secs(std::env::var("VERIF_MINIMISE_SECS").ok().and_then(|s| s.parse().ok()).unwrap_or(120));
    let expired = || std::time::Instant::now() > deadline;
    let tries = (3_000_000 / (schedule0.len().max(1))).clamp(20, 1500);
    // 1. shrink the workload, re-searching schedules for each candidate
    let mut changed = true;
    while changed && !expired() {
        changed = false;
        let mut candidates: Vec<Workload> = vec![];
        // many files: try dropping whole halves and quarters first
        if w.files.len() > 16 {
            let n = w.files.len();
            for (a, b) in [(0, n / 2), (n / 2, n), (0, n / 4), (n / 4, n / 2), (n / 2, 3 * n / 4), (3 * n / 4, n)] {
                let keep: Vec<usize> = (0..n).filter(|f| *f < a || *f >= b).collect();
                let mut c = w.clone();
                c.files = keep.iter().map(|f| w.files[*f].clone()).collect();
                for p in c.partition.iter_mut() {
                    *p = p.iter().filter_map(|x| keep.iter().position(|k| k == x)).collect();
                }
                candidates.push(c);
            }
        }
        // drop one file
        for f in 0..w.files.len() {
            if w.files.len() > 40 {
                break;
            }
            if w.files.len() <= 1 {
                break;
            }
            let mut c = w.clone();
            c.files.remove(f);
            for p in c.partition.iter_mut() {
                p.retain(|x| *x != f);
                for x in p.iter_mut() {
                    if *x > f {
                        *x -= 1;
                    }
                }
            }
            candidates.push(c);
        }
        // drop one scanner thread (its files go to the previous one)
        if w.threads > 2 {
            for t in 1..w.threads {
                let mut c = w.clone();
                let moved = c.partition.remove(t);
                c.partition[t - 1].extend(moved);
                c.threads -= 1;
                candidates.push(c);
            }
        }
        if w.max_chunks > 1 {
            let mut c = w.clone();
            c.max_chunks = 1;
            candidates.push(c);
        }
        // drop one whitespace-separated leaf or operator of the expression (keeps it only if it
        // still parses, compiles and fails the same way)
        let words: Vec<&str> = w.expr.split(' ').collect();
        if words.len() > 1 && words.len() <= 60 {
            for i in 0..words.len() {
                for len in [3usize, 2, 1] {
                    if i + len <= words.len() && len < words.len() {
                        let mut c = w.clone();
                        c.expr = words[..i].iter().chain(words[i + len..].iter()).copied().collect::<Vec<_>>().join(" ");
                        candidates.push(c);
                    }
                }
            }
        }
        for c in candidates {
            if expired() {
                break;
            }
            tests += 1;
            if let Some(s) = search(&c, class, mix(&[seed, tests]), tries) {
                w = c;
                schedule = s;
                changed = true;
                break;
            }
        }
    }
    // 2. fewest context switches: look for a failing schedule with fewer switches, then remove
    //    switches one at a time
    if let Prep::Ready(p) = prepare(&w) {
        let mut rng = Rng::new(mix(&[seed, 77]));
        for _ in 0..tries.min(600) {
            if expired() {
                break;
            }
            let stay = *rng.pick(&[90u64, 97, 99]);
            let ex = execute(&w, &p, Strategy::Sticky { stay }, rng.next_u64());
            tests += 1;
            if let Verdict::Violation(v) = judge(&w, &p, &ex).0 {
                if v.class == class && switches(&ex.choices) < switches(&schedule) {
                    schedule = ex.choices;
                }
            }
        }
    }
    let mut improved = true;
    while improved && !expired() {
        improved = false;
        let mut i = 1;
        while i < schedule.len() && !expired() {
            if schedule[i] != schedule[i - 1] {
                // let the previous thread keep running one step longer
                let mut cand = schedule.clone();
                cand[i] = schedule[i - 1];
                tests += 1;
                if fails_with(&w, &cand, class) {
                    // re-record the schedule actually taken
                    if let Prep::Ready(p) = prepare(&w) {
                        let ex = execute(&w, &p, Strategy::Replay(cand.clone()), 0);
                        if switches(&ex.choices) < switches(&schedule) {
                            schedule = ex.choices;
                            improved = true;
                            continue;
                        }
                    }
                }
            }
            i += 1;
        }
    }
    (w, schedule, tests)
}

fn replay_path(seed: u64, index: u64) -> PathBuf {
    coord::verif_root().join("replays").join(format!("{ID}-{seed}-{index}.json"))
}

pub fn check(tier: Tier) -> i32 {
    let timer = coord::Timer::start();
    let seed = coord::seed_from_env();
    println!("VERIF_SEED={seed} property={ID} tier={}", tier.name());
    if let Err(e) = seam::seams_are_live() {
        eprintln!("harness error: {e}");
        return 2;
    }
    // determinism precheck: same runs, two partitions, fresh processes
    let pre_runs = if tier == Tier::Quick { 100 } else { 1000 };
    let a = coord::run_plan(&Plan { prop: ID, tier: tier.name().into(), seed, runs: pre_runs, block: pre_runs, workers: 1 });
    let b = coord::run_plan(&Plan { prop: ID, tier: tier.name().into(), seed, runs: pre_runs, block: (pre_runs / 8).max(1), workers: coord::workers() });
    let mut compared = 0u64;
    match (a, b) {
        (Ok(a), Ok(b)) => {
            for (i, d) in &a.digests {
                if let Some(d2) = b.digests.get(i) {
                    compared += 1;
                    if d != d2 {
                        eprintln!("harness error: {ID}: run {i} produced different event logs in two fresh processes ({d:016x} vs {d2:016x})");
                        return 2;
                    }
                }
            }
        }
        (Err(e), _) | (_, Err(e)) => {
            eprintln!("harness error: {e}");
            return 2;
        }
    }
    let runs = std::env::var("VERIF_RUNS").ok().and_then(|s| s.parse().ok()).unwrap_or(if tier == Tier::Quick { 60_000u64 } else { 2_000_000 });
    let block = 250;
    let red = match coord::run_plan(&Plan { prop: ID, tier: tier.name().into(), seed, runs, block, workers: coord::workers() }) {
        Ok(r) => r,
        Err(e) => {
            eprintln!("harness error: {e}");
            return 2;
        }
    };
    let discarded = red.counters.get("discarded_runs").copied().unwrap_or(0);
    if red.runs_done > 200 && discarded * 100 > red.runs_done {
        eprintln!("harness error: {discarded} of {} generated workloads did not compile; the generator no longer matches the tree", red.runs_done);
        return 2;
    }
    let mut exit = 0;
    let mut violations = 0;
    let mut extra = Map::new();
    if let Some((index, vio)) = &red.violation {
        violations = 1;
        let class = vio["class"].as_str().unwrap_or("?").to_string();
        let w = match Workload::from_json(&vio["workload"]) {
            Ok(w) => w,
            Err(e) => {
                eprintln!("harness error: {e}");
                return 2;
            }
        };
        let schedule: Vec<u32> = vio["schedule"].as_array().map(|a| a.iter().filter_map(|x| x.as_u64().map(|x| x as u32)).collect()).unwrap_or_default();
        let (mw, ms, tests) = minimise(&w, &schedule, &class, seed);
        let path = replay_path(seed, *index);
        let (detail, program) = match replay_one(&mw, &ms) {
            Ok((Some(v), _)) if v.class == class => (v.detail, compile_program(&mw.expr, mw.hash_key).ok().and_then(|r| r.ok()).map(|r| r.0).unwrap_or_default()),
            _ => {
                eprintln!("harness error: minimised C16 scenario does not reproduce in-process");
                return 2;
            }
        };
        let doc = json!({
            "property": ID, "profile": coord::build_variant(), "seed": seed, "run_index": index, "class": class, "detail": detail,
            "workload": mw.to_json(), "schedule": ms, "context_switches": switches(&ms), "program": program,
        });
        if let Err(e) = coord::write_json(&path, &doc) {
            eprintln!("harness error: {e}");
            return 2;
        }
        match coord::replay_reproduces(&path, &class) {
            Ok(true) => {}
            Ok(false) => {
                eprintln!("harness error: replay file {} does not reproduce in a fresh process", path.display());
                return 2;
            }
            Err(e) => {
                eprintln!("harness error: {e}");
                return 2;
            }
        }
        println!("violation class={class} run={index} detail: {detail}");
        println!(
            "minimised to {} file(s), {} scanner threads, {} scheduler steps with {} context switches ({tests} candidate workloads/schedules tried)",
            mw.files.len(),
            mw.threads,
            ms.len(),
            switches(&ms)
        );
        println!("VIOLATION property={ID} replay={}", path.display());
        extra.insert("replay".into(), json!(path.display().to_string()));
        exit = 1;
    }
    let wall = timer.secs();
    let executions = red.counters.get("executions").copied().unwrap_or(0);
    let mut fired = Map::new();
    for k in [
        "thread_switches",
        "lock_attempts_that_found_the_mutex_held",
        "chunk_writes",
        "scan_breaks_fired",
        "scan_breaks_with_other_thread_mid_record",
        "files_not_started_because_of_break",
        "executions_random",
        "executions_sticky",
        "executions_pct",
        "programs_escalated_for_unprotected_writes",
    ] {
        fired.insert(k.into(), json!(red.counters.get(k).copied().unwrap_or(0)));
    }
    let mut other = Map::new();
    for (k, v) in &red.counters {
        if !fired.contains_key(k) {
            other.insert(k.clone(), json!(v));
        }
    }
    extra.insert("faults_fired".into(), Value::Object(fired));
    extra.insert("counters".into(), Value::Object(other));
    extra.insert("programs".into(), json!(red.counters.get("programs").copied().unwrap_or(0)));
    extra.insert("executions_per_hour".into(), json!((executions as f64 / wall.max(0.001) * 3600.0) as u64));
    extra.insert("scheduler_steps".into(), json!(red.counters.get("scheduler_steps").copied().unwrap_or(0)));
    extra.insert("child_processes".into(), json!(red.blocks));
    extra.insert("determinism_precheck_runs_compared".into(), json!(compared));
    extra.insert(
        "real_vs_stub".into(),
        json!({
            "real": ["lipe_find_parser::parse", "lipe_find_parser::compile", "CompiledExpression::scheme (the program text executed)", "CompiledExpression::io_map (tag table)"],
            "stub": ["Guile reader and evaluator (sim/src/sexp.rs, eval.rs)", "(lipe) / (lipe find) builtins, make-printer, lipe-scan thread pool, ports, mutexes", "thread scheduler: shuttle 0.9.3 runtime driven by the simulator's own seeded Random / Sticky / PCT / Replay schedulers", "clock and hash keys during compilation (libc seams)"],
        }),
    );
    let distinct = red.distinct.len() as u64;
    if let Err(e) = coord::write_evidence(coord::EvidenceInput {
        prop: ID,
        tier: tier.name(),
        seed,
        wall_s: wall,
        evaluations: executions,
        distinct_nontrivial: distinct,
        rule: "One case = one execution of one generated program (1-14 output actions of every kind over relative/absolute/aliased destinations, framed or plain mode, optional -quit, 0-130 tests in front; probe workloads with -ls/-fls or \\c formats; one workload in 400 is a volume workload of 300-1200 files and 100-400 KiB, one in 2000 a huge one of 1500-3000 files and 3-11 MiB per destination, one in 4000 a long scan of 66000-132000 records to one destination) on 2-4 scanner threads over 1-8 files (one file in 25 under a path of 260-4000 characters, one extended-attribute value in 16 of 300-65536 characters; one workload in 12: 5-40 threads over 8-52 files) under one seeded schedule (Random, Sticky or PCT strategy; scheduling points at every lock/unlock, every port operation, every access to an assigned variable or hash table, and between files; displays split into up to 3 chunk writes; ports unbuffered or unsynchronised block-buffered with capacity 8-4096; large writes may stall). The final stream of every destination is compared, as a multiset of frames or lines, with sequential scans of the same program. Non-trivial = the event trace switches between scanner threads at least once. distinct_nontrivial counts distinct (program text, lock/unlock/write/file event trace) pairs among them, i.e. distinct interleavings reached.",
        samples: red.samples.clone(),
        extra,
        assumptions: vec![
            "A1 make-mutex gives a non-recursive mutex (relock by the owner is an error)".into(),
            "A2 with-mutex releases on normal and non-local exit".into(),
            "A3 a port takes no lock of its own; it is either unbuffered (display = one or more atomic chunk writes) or block-buffered (display = read cursor / store / advance, flush = read cursor / hand over / reset, unsynchronised); a program must be correct under both".into(),
            "A4 (make-printer port mutex term) = (lambda (s) (with-mutex mutex (display s port) (when term (display term port))))".into(),
            "A5 lipe-scan evaluates the policy once per file on T threads, a file entirely on one thread; lipe-scan-break stops new files, running ones complete".into(),
            "A6 ports opened on one file name share one destination".into(),
            "A7 hash tables, vectors and assigned variables take no lock of their own (Guile manual: hash tables are not thread-safe); updating an existing key is one store, inserting a new key is read chain / store new head, so two unsynchronised insertions into one bucket (1, 2 or 7 buckets per workload) can lose one; the insertion that takes a table to 28, 55, 102, ... entries resizes it, and while it does lookups by other threads find nothing".into(),
            "port I/O errors and asynchronous thread cancellation are not injected (outside what the property states)".into(),
        ],
        violations,
    }) {
        eprintln!("harness error: {e}");
        return 2;
    }
    println!(
        "{ID}: {} programs, {executions} executions in {} child processes, {distinct} distinct interleavings, {discarded} discarded, {:.1}s",
        red.counters.get("programs").copied().unwrap_or(0),
        red.blocks,
        wall
    );
    exit
}

pub fn replay_file(path: &Path, expect: Option<&str>) -> i32 {
    let doc: Value = match std::fs::read_to_string(path).map_err(|e| e.to_string()).and_then(|t| serde_json::from_str(&t).map_err(|e| e.to_string())) {
        Ok(v) => v,
        Err(e) => {
            eprintln!("harness error: {}: {e}", path.display());
            return 2;
        }
    };
    let w = match Workload::from_json(&doc["workload"]) {
        Ok(w) => w,
        Err(e) => {
            eprintln!("harness error: {e}");
            return 2;
        }
    };
    let schedule: Vec<u32> = doc["schedule"].as_array().map(|a| a.iter().filter_map(|x| x.as_u64().map(|x| x as u32)).collect()).unwrap_or_default();
    match replay_one(&w, &schedule) {
        Err(e) => {
            eprintln!("harness error: {e}");
            2
        }
        Ok((None, diverged)) => {
            if expect.is_none() {
                println!("replay {}: no violation{}", path.display(), if diverged { " (the recorded schedule no longer fits the program)" } else { "" });
            }
            0
        }
        Ok((Some(v), _)) => {
            if let Some(class) = expect {
                return if v.class == class { 1 } else { 0 };
            }
            println!("replay {}: class={} {}", path.display(), v.class, v.detail);
            println!("VIOLATION property={ID} replay={}", path.display());
            1
        }
    }
}

/// Debug aid: print one workload, its program and the event log of one execution.
pub fn show_run(seed: u64, index: u64) {
    let mut rng = Rng::new(coord::run_seed(seed, ID, index));
    let w = workload(&mut rng, Tier::Quick);
    println!("expr: {}\nthreads: {} partition: {:?} max_chunks: {}", w.expr, w.threads, w.partition, w.max_chunks);
    match prepare(&w) {
        Prep::Ready(p) => {
            println!("{}", p.program);
            println!("reference: {:?}", p.ref_chars);
            let strategy = pick_strategy(&mut rng, p.seq_events * 2 + 8);
            println!("strategy: {strategy:?}");
            let ex = execute(&w, &p, strategy, rng.next_u64());
            for (i, e) in ex.log.iter().enumerate() {
                println!("{i:4} {e:?}");
            }
            println!("choices: {:?}", ex.choices);
            let (v, m) = judge(&w, &p, &ex);
            if let Verdict::Violation(v) = v {
                println!("VIOLATION {v:?}");
            }
            println!("{m:?}");
        }
        Prep::Discard(e) | Prep::Harness(e) => println!("not ready: {e}"),
        Prep::Violation(v) => println!("violation at prepare: {v:?}"),
    }
}

// ---------------------------------------------------------------------------------------------
// self-tests of the stub runtime and of the oracles (hand-written programs, no compiler involved)

fn selftest_workload(threads: usize, files: usize) -> Workload {
    let mut rng = Rng::new(42);
    let fs: Vec<FileRec> = (0..files).map(|i| gen_file(&mut rng, i, 4)).collect();
    let mut partition = vec![vec![]; threads];
    for f in 0..files {
        partition[f % threads].push(f);
    }
    Workload { expr: String::new(), files: fs, threads, partition, max_chunks: 1, chunk_seed: 1, hash_key: 1, buffer_cap: None, flush_resets_first: false, table_buckets: 1, probe: false, stall_large_writes: None, dynamic_assignment: false }
}

fn wrap_program(defs: &str, policy: &str) -> String {
    format!(
        "(use-modules (lipe) (lipe find))\n(let* ({defs})\n (dynamic-wind (lambda () #t) (lambda () (lipe-scan \"/dev/x\" (lipe-getopt-client-mount-path) (lambda () {policy}) (lipe-getopt-required-attrs) (lipe-getopt-thread-count))) (lambda () #t)))"
    )
}

/// Search up to `tries` schedules; returns the class of the first violation found.
fn selftest_search(w: &Workload, program: &str, io_keys: Option<Vec<u32>>, tries: usize) -> Result<Option<String>, String> {
    match prepare_program(w, program.to_string(), io_keys) {
        Prep::Ready(p) => {
            let mut rng = Rng::new(7);
            for _ in 0..tries {
                let ex = execute(w, &p, pick_strategy(&mut rng, p.seq_events * 2 + 8), rng.next_u64());
                match judge(w, &p, &ex).0 {
                    Verdict::Ok => {}
                    Verdict::Violation(v) => return Ok(Some(v.class)),
                    Verdict::Harness(e) => return Err(e),
                }
            }
            Ok(None)
        }
        Prep::Violation(v) => Ok(Some(v.class)),
        Prep::Harness(e) | Prep::Discard(e) => Err(e),
    }
}

/// Returns a list of (name, passed, detail).
pub fn selftests() -> Vec<(&'static str, bool, String)> {
    let mut out = vec![];
    let w = selftest_workload(2, 4);
    let w3 = selftest_workload(3, 6);
    let mut case = |name: &'static str, w: &Workload, program: String, keys: Option<Vec<u32>>, tries: usize, expect: Option<&[&str]>| {
        let r = selftest_search(w, &program, keys, tries);
        let (ok, detail) = match (&r, expect) {
            (Ok(None), None) => (true, "no violation, as expected".to_string()),
            (Ok(Some(c)), Some(classes)) if classes.contains(&c.as_str()) => (true, format!("found {c}, as expected")),
            (other, _) => (false, format!("got {other:?}, expected {expect:?}")),
        };
        out.push((name, ok, detail));
    };
    let plain_ok = "(p (current-output-port)) (m (make-mutex)) (pr (make-printer p m #\\x0a))";
    case("plain printer, one mutex: never torn", &w, wrap_program(plain_ok, "(call-with-relative-path pr)"), None, 3000, None);
    let plain_two_mutexes = "(p (current-output-port)) (m (make-mutex)) (m2 (make-mutex)) (pr (make-printer p m #\\x0a)) (pr2 (make-printer p m2 #\\x0a))";
    case(
        "plain printers with different mutexes: torn line is found",
        &w,
        wrap_program(plain_two_mutexes, "(if (= (logand (ino) 1) 0) (call-with-relative-path pr) (call-with-relative-path pr2))"),
        None,
        3000,
        Some(&["torn-line", "mixed-line"]),
    );
    let frame_ok = "(p (current-output-port)) (m (make-mutex)) (fr (lambda (s d) (with-mutex m (display s p) (display (string #\\x1e d) p)))) (pr (lambda (l) (fr l #\\x03)))";
    case("framed, both writes under the lock: never torn", &w3, wrap_program(frame_ok, "(call-with-relative-path pr)"), Some(vec![3]), 3000, None);
    let frame_bad = "(p (current-output-port)) (m (make-mutex)) (fr (lambda (s d) (with-mutex m (display s p)) (display (string #\\x1e d) p))) (pr (lambda (l) (fr l #\\x03)))";
    case(
        "framed, trailer outside the lock: mixed/torn frame is found",
        &w3,
        wrap_program(frame_bad, "(call-with-relative-path pr)"),
        Some(vec![3]),
        3000,
        Some(&["mixed-frame", "torn-frame", "records-lost-or-altered"]),
    );
    let frame_nolock = "(p (current-output-port)) (fr (lambda (s d) (display s p) (display (string #\\x1e d) p))) (pr (lambda (l) (fr l #\\x03)))";
    case(
        "framed, no lock at all: found",
        &w,
        wrap_program(frame_nolock, "(call-with-relative-path pr)"),
        Some(vec![3]),
        3000,
        Some(&["mixed-frame", "torn-frame", "records-lost-or-altered"]),
    );
    let relock = "(p (current-output-port)) (m (make-mutex)) (fr (lambda (s d) (with-mutex m (display s p) (display (string #\\x1e d) p)))) (pr (lambda (l) (with-mutex m (fr l #\\x03))))";
    case(
        "relock of a non-recursive mutex: error even sequentially",
        &w,
        wrap_program(relock, "(call-with-relative-path pr)"),
        Some(vec![3]),
        10,
        Some(&["policy-raises-error-sequentially"]),
    );
    let ab_ba = "(p (current-output-port)) (a (make-mutex)) (b (make-mutex)) (pr1 (lambda (l) (with-mutex a (with-mutex b (display l p) (display #\\x0a p))))) (pr2 (lambda (l) (with-mutex b (with-mutex a (display l p) (display #\\x0a p)))))";
    case(
        "two mutexes taken in opposite orders: deadlock is found",
        &w,
        wrap_program(ab_ba, "(if (= (logand (ino) 1) 0) (call-with-relative-path pr1) (call-with-relative-path pr2))"),
        None,
        5000,
        Some(&["deadlock"]),
    );
    let ab_ab = "(p (current-output-port)) (a (make-mutex)) (b (make-mutex)) (pr1 (lambda (l) (with-mutex a (with-mutex b (display l p) (display #\\x0a p))))) (pr2 (lambda (l) (with-mutex a (with-mutex b (display l p) (display #\\x0a p)))))";
    case(
        "two mutexes always taken in the same order: no deadlock, no tear",
        &w,
        wrap_program(ab_ab, "(if (= (logand (ino) 1) 0) (call-with-relative-path pr1) (call-with-relative-path pr2))"),
        None,
        3000,
        None,
    );
    let racy_flag = "(p (current-output-port)) (m (make-mutex)) (first #t) (pr (make-printer p m #\\x0a)) (hd (lambda (l) (if first (begin (set! first #f) (pr \"HEADER\"))) (pr l)))";
    case(
        "unsynchronised 'print header once' flag: duplicated or misplaced record is found",
        &w,
        wrap_program(racy_flag, "(call-with-relative-path hd)"),
        None,
        5000,
        Some(&["records-lost-or-altered"]),
    );
    case(
        "top-level and internal defines instead of let*: evaluated, never torn",
        &w3,
        "(use-modules (lipe))\n(define p (current-output-port))\n(define m (make-mutex))\n(define (emit l) (define t (string-append l \"\\n\")) (with-mutex m (display t p)))\n(lipe-scan \"/dev/x\" (lipe-getopt-client-mount-path) (lambda () (call-with-relative-path emit)) (lipe-getopt-required-attrs) 2)".to_string(),
        None,
        2000,
        None,
    );
    // per-thread pending output in a hash table keyed by the thread, written once per file
    let pending = |locked: bool| {
        let (get, put) = ("(or (hashq-ref pend (current-thread)) \"\")", |v: &str| format!("(hashq-set! pend (current-thread) {v})"));
        let add = put(&format!("(string-append {get} l (string #\\x0a))"));
        let add = if locked { format!("(with-mutex m {add})") } else { add };
        let take = format!("(let ((f {get})) {} f)", put("\"\""));
        let take = if locked { format!("(with-mutex m {take})") } else { take };
        format!("(p (current-output-port)) (m (make-mutex)) (pend (make-hash-table)) (pr (lambda (l) {add} (let ((t {take})) (with-mutex m (display t p)))))")
    };
    case(
        "per-thread pending strings in a hash table, insertions not under the lock: lost records are found",
        &w3,
        wrap_program(&pending(false), "(call-with-relative-path pr)"),
        None,
        5000,
        Some(&["records-lost-or-altered"]),
    );
    case(
        "per-thread pending strings in a hash table, table only touched under the lock: nothing lost",
        &w3,
        wrap_program(&pending(true), "(call-with-relative-path pr)"),
        None,
        3000,
        None,
    );
    // per-thread slots in a table keyed by the thread; 29 threads: the 28th registration resizes the table
    let w29 = selftest_workload(29, 58);
    let slots = |locked_lookup: bool| {
        let register = "(let ((s (cons 0 \"\"))) (hashq-set! slots (current-thread) s) s)";
        let slot = if locked_lookup {
            format!("(with-mutex m (or (hashq-ref slots (current-thread)) {register}))")
        } else {
            format!("(or (hashq-ref slots (current-thread)) (with-mutex m {register}))")
        };
        format!(
            "(p (current-output-port)) (m (make-mutex)) (slots (make-hash-table)) (slot (lambda () {slot})) (pr (lambda (l) (let ((s (slot))) (set-cdr! s (string-append (cdr s) l (string #\\x0a)))) (let ((s (slot))) (with-mutex m (display (cdr s) p)) (set-cdr! s \"\"))))"
        )
    };
    case(
        "per-thread slots registered under the lock but looked up without it, 29 threads: a lookup during the resize loses records",
        &w29,
        wrap_program(&slots(false), "(call-with-relative-path pr)"),
        None,
        4000,
        Some(&["records-lost-or-altered"]),
    );
    case(
        "per-thread slots registered and looked up under the lock, 29 threads: nothing lost",
        &w29,
        wrap_program(&slots(true), "(call-with-relative-path pr)"),
        None,
        1500,
        None,
    );
    case(
        "per-thread slots looked up without the lock, 3 threads: the table never grows, nothing lost",
        &w3,
        wrap_program(&slots(false), "(call-with-relative-path pr)"),
        None,
        3000,
        None,
    );
    case(
        "spin lock built from try-mutex (and a poll on mutex-locked?): ugly but correct; no 'no progress' under priority or sticky schedules",
        &w3,
        wrap_program(
            "(p (current-output-port)) (m (make-mutex)) (pr (lambda (l) (let loop () (if (or (mutex-locked? m) (not (try-mutex m))) (loop))) (display l p) (display #\\x0a p) (unlock-mutex m)))",
            "(call-with-relative-path pr)",
        ),
        None,
        3000,
        None,
    );
    case(
        "letrec with mutually referring procedures, cond =>, case on #f and characters, rest parameters, apply throw: evaluated; never torn",
        &w3,
        wrap_program(
            "(p (current-output-port)) (m (make-mutex)) (mk (letrec ((suffix-of (lambda (t) (case t ((#f) \"\") ((#\\x0a) \"\\n\") (else (list->string (list t)))))) (construct (lambda (term) (let ((suffix (suffix-of term))) (lambda (line . more) (let ((record (apply string-append (append (cons line more) (list suffix))))) (lock-mutex m) (catch #t (lambda () (display record p)) (lambda (key . args) (unlock-mutex m) (apply throw key args))) (unlock-mutex m) (cond ((assv term '((#\\x0a . yes))) => cdr) (else #t)))))))) construct)) (pr (mk #\\x0a))",
            "(call-with-relative-path pr)",
        ),
        None,
        2000,
        None,
    );
    case(
        "format with width parameters, multiple values (receive, let-values, call-with-values), string procedures: evaluated; never torn",
        &w3,
        wrap_program(
            "(p (current-output-port)) (m (make-mutex)) (pr (lambda (l) (receive (a b) (values (string-length l) (string-upcase l)) (let-values (((c d) (values (format #f \"~5d|~8a|~3,'0d|~x\" a l a 255) (string-trim-both (string-append \" \" b \" \"))))) (call-with-values (lambda () (values c d)) (lambda (x y) (with-mutex m (display (string-append x \":\" y (string #\\x0a)) p))))))))",
            "(call-with-relative-path pr)",
        ),
        None,
        1500,
        None,
    );
    let monitor = |recheck: bool| {
        let wait = if recheck { "(let loop () (when busy (wait-condition-variable cv m) (loop)))" } else { "(when busy (wait-condition-variable cv m))" };
        format!("(p (current-output-port)) (m (make-mutex)) (cv (make-condition-variable)) (busy #f) (pr (lambda (l) (lock-mutex m) {wait} (set! busy #t) (unlock-mutex m) (display l p) (display #\\x0a p) (lock-mutex m) (set! busy #f) (signal-condition-variable cv) (unlock-mutex m)))")
    };
    case(
        "monitor with a condition variable, the condition re-checked after every wake-up: never torn, no deadlock",
        &w3,
        wrap_program(&monitor(true), "(call-with-relative-path pr)"),
        None,
        3000,
        None,
    );
    case(
        "monitor whose waiters do not re-check the condition after waking: torn line is found",
        &w3,
        wrap_program(&monitor(false), "(call-with-relative-path pr)"),
        None,
        6000,
        Some(&["torn-line", "mixed-line", "records-lost-or-altered"]),
    );
    case(
        "a thread created by the program writes the record under the lock and is joined: never torn",
        &w3,
        wrap_program(
            "(p (current-output-port)) (m (make-mutex)) (pr (lambda (l) (join-thread (call-with-new-thread (lambda () (with-mutex m (display l p) (display #\\x0a p)))))))",
            "(call-with-relative-path pr)",
        ),
        None,
        1500,
        None,
    );
    case(
        "a loop of 20 000 iterations written as tail recursion (named let, cond, when, mutual recursion) does not nest: evaluated; never torn",
        &w,
        wrap_program(
            "(p (current-output-port)) (m (make-mutex)) (count (lambda (n) (let loop ((i 0) (acc 0)) (cond ((= i n) acc) (else (loop (+ i 1) (+ acc 1))))))) (even2? (letrec ((e? (lambda (n) (if (= n 0) #t (o? (- n 1))))) (o? (lambda (n) (if (= n 0) #f (e? (- n 1)))))) e?)) (pr (lambda (l) (when (and (= (count 20000) 20000) (even2? 5000)) (with-mutex m (display l p) (display #\\x0a p)))))",
            "(call-with-relative-path pr)",
        ),
        None,
        30,
        None,
    );
    let turnstile = |wake: &str| {
        format!("(p (current-output-port)) (m (make-mutex)) (cv (make-condition-variable)) (ready #f) (first #t) (pr (lambda (l) (lock-mutex m) (if first (begin (set! first #f) (unlock-mutex m) (with-mutex m (display l p) (display #\\x0a p) (set! ready #t) ({wake} cv))) (begin (let loop () (unless ready (wait-condition-variable cv m) (loop))) (display l p) (display #\\x0a p) (unlock-mutex m)))))")
    };
    case(
        "two waiters, one signal-condition-variable where a broadcast was needed: the waiter left asleep is found (deadlock)",
        &w3,
        wrap_program(&turnstile("signal-condition-variable"), "(call-with-relative-path pr)"),
        None,
        6000,
        Some(&["deadlock"]),
    );
    case(
        "two waiters, broadcast-condition-variable: nobody is left asleep",
        &w3,
        wrap_program(&turnstile("broadcast-condition-variable"), "(call-with-relative-path pr)"),
        None,
        3000,
        None,
    );
    case(
        "quote, pairs and association lists: evaluated; records queued per call and written under the lock",
        &w3,
        wrap_program(
            "(p (current-output-port)) (m (make-mutex)) (tags '((a . #\\x41) (b . #\\x42))) (pr (lambda (l) (let ((q (cons (cons l (cdr (assq 'b tags))) '()))) (with-mutex m (for-each (lambda (f) (display (car f) p) (display (cdr f) p) (display #\\x0a p)) q)))))",
            "(call-with-relative-path pr)",
        ),
        None,
        2000,
        None,
    );
    case(
        "throw out of with-mutex caught by catch (rest parameter): mutex released, nothing torn, no deadlock",
        &w3,
        wrap_program(
            "(p (current-output-port)) (m (make-mutex)) (pr (lambda (l) (catch #t (lambda () (with-mutex m (display l p) (display #\\x0a p) (if (= (logand (ino) 1) 0) (throw 'skip l)))) (lambda (key . args) #t))))",
            "(call-with-relative-path pr)",
        ),
        None,
        3000,
        None,
    );
    case(
        "atomic box counted up with a compare-and-swap loop, case and do: evaluated; lines written under the lock are never torn",
        &w3,
        wrap_program(
            "(p (current-output-port)) (m (make-mutex)) (cnt (make-atomic-box 0)) (bump (lambda () (let loop () (let ((old (atomic-box-ref cnt))) (if (not (eqv? (atomic-box-compare-and-swap! cnt old (+ old 1)) old)) (loop)))))) (pr (lambda (l) (bump) (do ((i 0 (+ i 1))) ((= i 2)) (with-mutex m (display (case i ((0) l) (else (string-upcase l))) p) (display #\\x0a p)))))",
            "(call-with-relative-path pr)",
        ),
        None,
        2000,
        None,
    );
    case(
        "pending text kept in a shared pair with set-cdr! outside the lock: lost or duplicated records are found",
        &w3,
        wrap_program(
            "(p (current-output-port)) (m (make-mutex)) (buf (cons 0 \"\")) (pr (lambda (l) (set-cdr! buf (string-append (cdr buf) l (string #\\x0a))) (with-mutex m (display (cdr buf) p) (set-cdr! buf \"\"))))",
            "(call-with-relative-path pr)",
        ),
        None,
        5000,
        Some(&["records-lost-or-altered"]),
    );
    case(
        "display and newline without a port argument, no lock: torn line is found",
        &w,
        wrap_program("(pr (lambda (l) (display l) (newline)))", "(call-with-relative-path pr)"),
        None,
        3000,
        Some(&["torn-line", "mixed-line", "records-lost-or-altered"]),
    );
    case(
        "display and newline without a port argument under one mutex: never torn",
        &w,
        wrap_program("(m (make-mutex)) (pr (lambda (l) (with-mutex m (display l) (newline))))", "(call-with-relative-path pr)"),
        None,
        3000,
        None,
    );
    case(
        "named let, hash table, string port: evaluated; record built in a string port and written under the lock is never torn",
        &w3,
        wrap_program(
            "(p (current-output-port)) (m (make-mutex)) (seen (make-hash-table)) (pr (lambda (l) (let ((text (call-with-output-string (lambda (sp) (let loop ((i 0)) (if (< i 2) (begin (display l sp) (display #\\: sp) (loop (+ i 1))))))))) (with-mutex m (hash-set! seen l #t) (display text p) (display #\\x0a p)))))",
            "(call-with-relative-path pr)",
        ),
        None,
        2000,
        None,
    );
    // block-buffered ports (Guile on pipes and files): display and force-output are
    // unsynchronised read-modify-write operations on the port's buffer
    let mut buffered: Vec<(&'static str, bool, String)> = vec![];
    for cap in [8usize, 40, 4096] {
        for resets_first in [false, true] {
            let mut wb = selftest_workload(3, 6);
            wb.buffer_cap = Some(cap);
            wb.flush_resets_first = resets_first;
            let mut case_b = |out_b: &mut Vec<(&'static str, bool, String)>, name: &'static str, program: String, keys: Option<Vec<u32>>, expect: Option<&[&str]>| {
                let r = selftest_search(&wb, &program, keys, 4000);
                let (ok, detail) = match (&r, expect) {
                    (Ok(None), None) => (true, format!("cap {cap}, reset-first {resets_first}: no violation, as expected")),
                    (Ok(Some(c)), Some(classes)) if classes.contains(&c.as_str()) => (true, format!("cap {cap}, reset-first {resets_first}: found {c}, as expected")),
                    (other, _) => (false, format!("cap {cap}, reset-first {resets_first}: got {other:?}, expected {expect:?}")),
                };
                out_b.push((name, ok, detail));
            };
            case_b(&mut buffered, "buffered ports, framed writes under the lock: never torn", wrap_program(frame_ok, "(call-with-relative-path pr)"), Some(vec![3]), None);
            let flush_locked = "(p (current-output-port)) (m (make-mutex)) (pr (lambda (l) (with-mutex m (display l p) (display #\\x0a p) (force-output p))))";
            case_b(&mut buffered, "buffered ports, force-output inside the lock: never torn", wrap_program(flush_locked, "(call-with-relative-path pr)"), None, None);
            let flush_unlocked = "(p (current-output-port)) (m (make-mutex)) (pr (lambda (l) (with-mutex m (display l p) (display #\\x0a p)) (force-output p)))";
            case_b(
                &mut buffered,
                "buffered ports, force-output after the unlock: lost or duplicated output is found",
                wrap_program(flush_unlocked, "(call-with-relative-path pr)"),
                None,
                Some(&["records-lost-or-altered", "mixed-line", "torn-line", "stray-output"]),
            );
            let setvbuf_unlocked = "(p (current-output-port)) (m (make-mutex)) (pr (lambda (l) (with-mutex m (display l p) (display #\\x0a p)) (setvbuf (current-output-port) 'none)))";
            case_b(
                &mut buffered,
                "buffered ports, setvbuf on the shared port outside the lock: output stored into the replaced buffer is lost",
                wrap_program(setvbuf_unlocked, "(call-with-relative-path pr)"),
                None,
                Some(&["records-lost-or-altered", "mixed-line", "torn-line", "stray-output"]),
            );
            let setvbuf_locked = "(p (current-output-port)) (m (make-mutex)) (pr (lambda (l) (with-mutex m (display l p) (display #\\x0a p) (setvbuf (current-output-port) 'none))))";
            case_b(&mut buffered, "buffered ports, setvbuf inside the lock: never torn, nothing lost", wrap_program(setvbuf_locked, "(call-with-relative-path pr)"), None, None);
        }
    }
    let explicit = "(p (current-output-port)) (m (make-mutex)) (pr (lambda (l) (lock-mutex m) (display l p) (display #\\x0a p) (unlock-mutex m)))";
    case("explicit lock-mutex/unlock-mutex around both writes: never torn", &w3, wrap_program(explicit, "(call-with-relative-path pr)"), None, 3000, None);
    let explicit_bad = "(p (current-output-port)) (m (make-mutex)) (pr (lambda (l) (lock-mutex m) (display l p) (unlock-mutex m) (display #\\x0a p)))";
    case(
        "explicit unlock before the terminator: found",
        &w3,
        wrap_program(explicit_bad, "(call-with-relative-path pr)"),
        None,
        3000,
        Some(&["mixed-line", "torn-line", "records-lost-or-altered"]),
    );
    out.extend(buffered);
    out
}
