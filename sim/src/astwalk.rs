//! The one place where the harness depends on the SHAPE of the library's public syntax tree
//! (`ast::Expression::Operator(Rc<Operator>)` with operands inside): collecting handles (clones) of
//! every sub-expression of a parse result, as an embedding program does that lists, explains or
//! reuses parts of a policy. A clone of a node behind an `Rc` shares the node, so while the handles
//! live the tree is the same value (`==`, same `Debug` text) with different reference counts — state
//! that `==` cannot see and that compilation must not depend on.
//!
//! Built only with the feature `astwalk`; run.sh falls back to a build without it (and says so) when
//! the tree's shape has changed, so a refactoring of the tree cannot break the check.

#[cfg(feature = "astwalk")]
pub fn inner_handles(e: &lipe_find_parser::ast::Expression, out: &mut Vec<lipe_find_parser::ast::Expression>) {
    use lipe_find_parser::ast::{Expression, Operator};
    if let Expression::Operator(op) = e {
        #[allow(unreachable_patterns)]
        match &**op {
            Operator::Precedence(x) | Operator::Not(x) => {
                out.push(x.clone());
                inner_handles(x, out);
            }
            Operator::And(a, b) | Operator::Or(a, b) | Operator::List(a, b) => {
                out.push(a.clone());
                out.push(b.clone());
                inner_handles(a, out);
                inner_handles(b, out);
            }
            _ => {}
        }
    }
}

#[cfg(not(feature = "astwalk"))]
pub fn inner_handles(_e: &lipe_find_parser::ast::Expression, _out: &mut Vec<lipe_find_parser::ast::Expression>) {}

pub const ENABLED: bool = cfg!(feature = "astwalk");

pub const KNOWN_TESTS: [&str; 38] = [
    "AccessTime", "ChangeTime", "Empty", "Executable", "False", "GroupId", "InodeNumber", "InsensitiveName", "InsensitivePath",
    "Links", "MirrorCount", "ModifyTime", "Name", "Path", "Perm", "Pool", "Readable", "Size", "StripeCount", "True", "Type",
    "UserId", "Writable", "Xattr", "XattrMatch", "AccessNewer", "ChangeNewer", "FsType", "Group", "InsensitiveLinkName",
    "InsensitiveRegex", "LinkName", "ModifyNewer", "NoGroup", "NoUser", "Regex", "Samefile", "User",
];

/// (time tests, hashed resources, tree contains a test kind unknown to this harness), read off the
/// tree itself.
#[cfg(feature = "astwalk")]
pub fn tree_facts3(e: &lipe_find_parser::ast::Expression) -> (usize, usize, bool) {
    use lipe_find_parser::ast::{Action, Expression, Operator, Test};
    fn walk(e: &Expression, time: &mut usize, res: &mut std::collections::BTreeSet<String>) {
        match e {
            Expression::Operator(op) => {
                #[allow(unreachable_patterns)]
                match op.as_ref() {
                    Operator::Precedence(a) | Operator::Not(a) => walk(a, time, res),
                    Operator::And(a, b) | Operator::Or(a, b) | Operator::List(a, b) => {
                        walk(a, time, res);
                        walk(b, time, res);
                    }
                    _ => {
                        res.insert("unknown-test-kind".into());
                    }
                }
            }
            Expression::Test(t) => match t {
                Test::AccessTime(_) | Test::ChangeTime(_) | Test::ModifyTime(_) => *time += 1,
                // a test kind this harness does not know (added after the pinned tree): it may or
                // may not be a time test; reported through the resource set
                other if !KNOWN_TESTS.contains(&format!("{other:?}").split(|c: char| !c.is_alphanumeric()).next().unwrap_or("")) => {
                    res.insert("unknown-test-kind".into());
                }
                Test::Name(s) | Test::Path(s) => {
                    res.insert(format!("m:{s}"));
                }
                Test::InsensitiveName(s) | Test::InsensitivePath(s) => {
                    res.insert(format!("i:{s}"));
                }
                _ => {}
            },
            Expression::Action(a) => match a {
                Action::Quit | Action::PrintFid => {}
                #[allow(deprecated)]
                Action::DefaultPrint => {}
                other => {
                    let d = format!("{other:?}");
                    // printers are keyed by destination and terminator, not by format
                    let key = d.split('[').next().unwrap_or(&d).to_string();
                    res.insert(format!("a:{key}"));
                }
            },
            _ => {}
        }
    }
    let mut time = 0;
    let mut res = std::collections::BTreeSet::new();
    walk(e, &mut time, &mut res);
    let unknown = res.remove("unknown-test-kind");
    (time, res.len(), unknown)
}

/// Without the walk: the same facts from the tree's `Debug` text.
#[cfg(not(feature = "astwalk"))]
pub fn tree_facts3(e: &lipe_find_parser::ast::Expression) -> (usize, usize, bool) {
    facts_from_dump(&format!("{e:?}"))
}

/// The facts of `tree_facts3` from the `Debug` text of a tree: identifiers outside string and
/// character literals; `Test(Kind...`, `Action(Kind...`. Used when the walk over the tree does not
/// build (the tree changed shape); the self-check compares both on the pinned tree.
pub fn facts_from_dump(dump: &str) -> (usize, usize, bool) {
    #[derive(Debug, PartialEq, Clone)]
    enum Tok {
        Ident(String),
        Str(String),
        Punct(char),
    }
    let cs: Vec<char> = dump.chars().collect();
    let mut toks = vec![];
    let mut i = 0;
    while i < cs.len() {
        let c = cs[i];
        if c == '"' {
            let mut s = String::new();
            i += 1;
            while i < cs.len() && cs[i] != '"' {
                if cs[i] == '\\' && i + 1 < cs.len() {
                    s.push(cs[i]);
                    i += 1;
                }
                s.push(cs[i]);
                i += 1;
            }
            i += 1;
            toks.push(Tok::Str(s));
        } else if c == '\'' {
            // a character literal: 'x', '\n', '\'', '\u{1f600}'
            i += 1;
            if i < cs.len() && cs[i] == '\\' {
                i += 2;
                while i < cs.len() && cs[i] != '\'' {
                    i += 1;
                }
            } else {
                i += 1;
            }
            i += 1;
            toks.push(Tok::Punct('\''));
        } else if c.is_alphabetic() || c == '_' {
            let mut s = String::new();
            while i < cs.len() && (cs[i].is_alphanumeric() || cs[i] == '_') {
                s.push(cs[i]);
                i += 1;
            }
            toks.push(Tok::Ident(s));
        } else {
            if !c.is_whitespace() {
                toks.push(Tok::Punct(c));
            }
            i += 1;
        }
    }
    let mut time = 0;
    let mut unknown = false;
    let mut res = std::collections::BTreeSet::new();
    let mut k = 0;
    while k + 2 < toks.len() {
        if let (Tok::Ident(head), Tok::Punct('('), Tok::Ident(kind)) = (&toks[k], &toks[k + 1], &toks[k + 2]) {
            if head == "Test" {
                match kind.as_str() {
                    "AccessTime" | "ChangeTime" | "ModifyTime" => time += 1,
                    other if !KNOWN_TESTS.contains(&other) => unknown = true,
                    "Name" | "Path" | "InsensitiveName" | "InsensitivePath" => {
                        if let Some(Tok::Str(s)) = toks.get(k + 4) {
                            res.insert(format!("{}:{s}", if kind.starts_with("Insensitive") { "i" } else { "m" }));
                        }
                    }
                    _ => {}
                }
            } else if head == "Action" && !matches!(kind.as_str(), "Quit" | "PrintFid" | "DefaultPrint") {
                // printers are keyed by destination and terminator, not by format: the text up to
                // the first '[' or the closing parenthesis
                let mut key = kind.clone();
                let (mut depth, mut m) = (0i32, k + 3);
                while m < toks.len() {
                    match &toks[m] {
                        Tok::Punct('[') => break,
                        Tok::Punct('(') => depth += 1,
                        Tok::Punct(')') => {
                            depth -= 1;
                            if depth < 0 {
                                break;
                            }
                        }
                        Tok::Str(s) => key.push_str(&format!("\"{s}\"")),
                        Tok::Ident(s) => key.push_str(s),
                        _ => {}
                    }
                    m += 1;
                }
                res.insert(format!("a:{key}"));
            }
        }
        k += 1;
    }
    (time, res.len(), unknown)
}
