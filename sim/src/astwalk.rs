//! The one place where the harness depends on the SHAPE of the library's public syntax tree
//! (`ast::Expression::Operator(Rc<Operator>)` with operands inside): collecting handles (clones) of
//! every sub-expression of a parse result, as an embedding program does that lists, explains or
//! reuses parts of a policy. A clone of a node behind an `Rc` shares the node, so while the handles
//! live the tree is the same value (`==`, same `Debug` text) with different reference counts — state
//! that `==` cannot see and that compilation must not depend on.
//!
//! Built only with the feature `astwalk`; run.sh falls back to a build without it (and says so) when
//! the tree's shape has changed, so a refactoring of the tree cannot break the check.

#[cfg(feature = "astwalk")]
pub fn inner_handles(e: &lipe_find_parser::ast::Expression, out: &mut Vec<lipe_find_parser::ast::Expression>) {
    use lipe_find_parser::ast::{Expression, Operator};
    if let Expression::Operator(op) = e {
        #[allow(unreachable_patterns)]
        match &**op {
            Operator::Precedence(x) | Operator::Not(x) => {
                out.push(x.clone());
                inner_handles(x, out);
            }
            Operator::And(a, b) | Operator::Or(a, b) | Operator::List(a, b) => {
                out.push(a.clone());
                out.push(b.clone());
                inner_handles(a, out);
                inner_handles(b, out);
            }
            _ => {}
        }
    }
}

#[cfg(not(feature = "astwalk"))]
pub fn inner_handles(_e: &lipe_find_parser::ast::Expression, _out: &mut Vec<lipe_find_parser::ast::Expression>) {}

pub const ENABLED: bool = cfg!(feature = "astwalk");
