//! Seams owned by the simulator, placed at the libc boundary.
//!
//! find-parser has no injectable clock or hasher, but everything it (or std on its behalf) can
//! learn about the outside world goes through two libc entry points, and the standard library
//! resolves both by symbol name at link time:
//!
//! * `clock_gettime` — behind `SystemTime::now()` / `Instant::now()`;
//! * `getrandom` — behind `RandomState::new()`, i.e. the per-thread SipHash keys of every
//!   `HashMap`/`HashSet` (std declares this symbol weak precisely so that it can be interposed).
//!
//! Defining the two symbols in this binary makes the simulator the provider of both for the
//! threads it marks as *simulated caller threads*. All other threads (the coordinator, shuttle's
//! internals) are passed through to the kernel. Nothing in /repo is changed or feature-gated.

use std::cell::Cell;
use std::collections::VecDeque;
use std::os::raw::{c_int, c_long, c_uint, c_void};
use std::sync::{Arc, Mutex};

/// Simulated wall clock never goes below this (2001-09-09); user constants in generated
/// expressions stay below it, so a clock value can be recognised in emitted text.
pub const CLOCK_FLOOR: u64 = 1_000_000_007;
/// Upper bound kept well inside i64 seconds.
pub const CLOCK_CEIL: u64 = (1 << 40) - 12_345;

#[derive(Debug, Default)]
pub struct EnvState {
    /// Current simulated wall-clock second.
    pub now: u64,
    /// Simulated monotonic second (follows forward motion of `now` only).
    pub mono: u64,
    /// Deltas applied before successive wall-clock reads of the operation in progress.
    pub script: VecDeque<i64>,
    /// Wall-clock values served during the operation in progress.
    pub served: Vec<u64>,
    pub wall_reads_total: u64,
    pub mono_reads_total: u64,
    pub getrandom_calls: u64,
    pub in_call_ticks: u64,
    pub in_call_back_steps: u64,
    /// environment: what `getenv(name)` answers is a function of (name, env_seed, env_epoch)
    pub env_seed: u64,
    pub env_epoch: u64,
    pub env_reads_total: u64,
    /// names the code under test asked for
    pub env_names: std::collections::BTreeSet<String>,
    /// files the code under test tried to open (the library performs no I/O today)
    pub files_opened: std::collections::BTreeSet<String>,
    pub file_opens_total: u64,
    pub file_opens_denied: u64,
}

pub type Env = Arc<Mutex<EnvState>>;

pub fn new_env(start: u64) -> Env {
    Arc::new(Mutex::new(EnvState { now: start, mono: 5_000, ..Default::default() }))
}

impl EnvState {
    /// Move the clock by `delta` seconds, clamped to [CLOCK_FLOOR, CLOCK_CEIL].
    pub fn shift(&mut self, delta: i64) {
        let target = if delta >= 0 {
            self.now.saturating_add(delta as u64).min(CLOCK_CEIL)
        } else {
            self.now.saturating_sub(delta.unsigned_abs()).max(CLOCK_FLOOR)
        };
        if target > self.now {
            self.mono += target - self.now;
        }
        self.now = target;
    }
}

thread_local! {
    static ACTIVE: Cell<*const Mutex<EnvState>> = const { Cell::new(std::ptr::null()) };
    static HASH_KEY: Cell<u64> = const { Cell::new(0) };
    static HASH_CTR: Cell<u64> = const { Cell::new(0) };
}

/// Guard marking the current OS thread as a simulated caller thread.
pub struct Entered {
    _env: Env,
}

/// Route this thread's clock and hash-key requests to `env`. `hash_key` seeds the bytes this
/// thread receives from `getrandom` (std asks once per thread, at its first `RandomState`).
pub fn enter(env: &Env, hash_key: u64) -> Entered {
    let keep = env.clone();
    ACTIVE.with(|a| a.set(Arc::as_ptr(&keep)));
    HASH_KEY.with(|k| k.set(hash_key));
    HASH_CTR.with(|k| k.set(0));
    Entered { _env: keep }
}

impl Drop for Entered {
    fn drop(&mut self) {
        let _ = ACTIVE.try_with(|a| a.set(std::ptr::null()));
    }
}

fn active() -> *const Mutex<EnvState> {
    ACTIVE.try_with(|a| a.get()).unwrap_or(std::ptr::null())
}

#[repr(C)]
pub struct Timespec {
    tv_sec: i64,
    tv_nsec: c_long,
}

extern "C" {
    fn syscall(num: c_long, ...) -> c_long;
}

#[cfg(not(all(target_os = "linux", target_arch = "x86_64")))]
compile_error!("the libc seams are written for x86_64 linux");

const SYS_CLOCK_GETTIME: c_long = 228;
const SYS_GETRANDOM: c_long = 318;

#[no_mangle]
pub unsafe extern "C" fn clock_gettime(clk: c_int, ts: *mut Timespec) -> c_int {
    let env = active();
    if !env.is_null() && !ts.is_null() {
        // 0 REALTIME, 5 REALTIME_COARSE, 11 TAI | 1 MONOTONIC, 4 MONOTONIC_RAW, 6 MONOTONIC_COARSE, 7 BOOTTIME
        let wall = matches!(clk, 0 | 5 | 11);
        let mono = matches!(clk, 1 | 4 | 6 | 7);
        if wall || mono {
            let mut st = (*env).lock().unwrap_or_else(|e| e.into_inner());
            let secs = if wall {
                if let Some(delta) = st.script.pop_front() {
                    if delta > 0 {
                        st.in_call_ticks += 1;
                    } else if delta < 0 {
                        st.in_call_back_steps += 1;
                    }
                    st.shift(delta);
                }
                st.wall_reads_total += 1;
                let v = st.now;
                st.served.push(v);
                v
            } else {
                st.mono_reads_total += 1;
                st.mono
            };
            (*ts).tv_sec = secs as i64;
            (*ts).tv_nsec = 0;
            return 0;
        }
    }
    syscall(SYS_CLOCK_GETTIME, clk as c_long, ts) as c_int
}

#[no_mangle]
pub unsafe extern "C" fn getrandom(buf: *mut c_void, len: usize, flags: c_uint) -> isize {
    let env = active();
    if !env.is_null() && !buf.is_null() {
        {
            let mut st = (*env).lock().unwrap_or_else(|e| e.into_inner());
            st.getrandom_calls += 1;
        }
        let key = HASH_KEY.with(|k| k.get());
        let out = std::slice::from_raw_parts_mut(buf as *mut u8, len);
        for chunk in out.chunks_mut(8) {
            let ctr = HASH_CTR.with(|c| {
                let v = c.get();
                c.set(v + 1);
                v
            });
            let word = crate::rng::mix(&[key, ctr]).to_ne_bytes();
            chunk.copy_from_slice(&word[..chunk.len()]);
        }
        return len as isize;
    }
    syscall(SYS_GETRANDOM, buf, len, flags as c_long) as isize
}

extern "C" {
    static environ: *const *const std::os::raw::c_char;
}

unsafe fn real_getenv(name: &[u8]) -> *mut std::os::raw::c_char {
    let mut p = environ;
    if p.is_null() {
        return std::ptr::null_mut();
    }
    while !(*p).is_null() {
        let entry = std::ffi::CStr::from_ptr(*p).to_bytes();
        if entry.len() > name.len() && &entry[..name.len()] == name && entry[name.len()] == b'=' {
            return (*p).add(name.len() + 1) as *mut std::os::raw::c_char;
        }
        p = p.add(1);
    }
    std::ptr::null_mut()
}

static ENV_ONE: &[u8] = b"1\0";
static ENV_EMPTY: &[u8] = b"\0";

/// Third seam: the process environment. For simulated caller threads every variable the code
/// under test asks for is unset, set to "1" or set to the empty string, decided by the simulator
/// per (name, environment epoch); `RUST_*` names (std's own knobs) are passed through.
#[no_mangle]
pub unsafe extern "C" fn getenv(name: *const std::os::raw::c_char) -> *mut std::os::raw::c_char {
    if name.is_null() {
        return std::ptr::null_mut();
    }
    let bytes = std::ffi::CStr::from_ptr(name).to_bytes();
    let env = active();
    if !env.is_null() && !bytes.starts_with(b"RUST_") {
        let mut st = (*env).lock().unwrap_or_else(|e| e.into_inner());
        st.env_reads_total += 1;
        let text = String::from_utf8_lossy(bytes).to_string();
        let h = crate::rng::mix(&[crate::rng::hash_str(&text), st.env_seed, st.env_epoch]) % 4;
        st.env_names.insert(text);
        return match h {
            0 | 1 => std::ptr::null_mut(),
            2 => ENV_ONE.as_ptr() as *mut std::os::raw::c_char,
            _ => ENV_EMPTY.as_ptr() as *mut std::os::raw::c_char,
        };
    }
    real_getenv(bytes)
}

extern "C" {
    fn __errno_location() -> *mut c_int;
}

const SYS_OPENAT: c_long = 257;
const AT_FDCWD: c_long = -100;
const ENOENT: c_int = 2;

/// Fourth seam: opening files. The library reads no file today; if a change makes it consult the
/// file system (a user database, /proc, a configuration file), the simulator sees the path and
/// makes the file appear and disappear with the environment epoch (ENOENT in half of the epochs),
/// so that a result depending on it shows up as a difference between equal inputs.
unsafe fn sim_open(dirfd: c_long, path: *const std::os::raw::c_char, flags: c_int, mode: c_uint) -> c_int {
    let env = active();
    if !env.is_null() && !path.is_null() {
        let text = std::ffi::CStr::from_ptr(path).to_string_lossy().to_string();
        let mut st = (*env).lock().unwrap_or_else(|e| e.into_inner());
        if !sim_exists(&mut st, &text) {
            *__errno_location() = ENOENT;
            return -1;
        }
    }
    let r = syscall(SYS_OPENAT, dirfd, path, flags as c_long, mode as c_long);
    if r < 0 {
        *__errno_location() = (-r) as c_int;
        return -1;
    }
    r as c_int
}

#[no_mangle]
pub unsafe extern "C" fn open64(path: *const std::os::raw::c_char, flags: c_int, mode: c_uint) -> c_int {
    sim_open(AT_FDCWD, path, flags, mode)
}

#[no_mangle]
pub unsafe extern "C" fn open(path: *const std::os::raw::c_char, flags: c_int, mode: c_uint) -> c_int {
    sim_open(AT_FDCWD, path, flags, mode)
}

#[no_mangle]
pub unsafe extern "C" fn openat(dirfd: c_int, path: *const std::os::raw::c_char, flags: c_int, mode: c_uint) -> c_int {
    sim_open(dirfd as c_long, path, flags, mode)
}

#[no_mangle]
pub unsafe extern "C" fn openat64(dirfd: c_int, path: *const std::os::raw::c_char, flags: c_int, mode: c_uint) -> c_int {
    sim_open(dirfd as c_long, path, flags, mode)
}

fn sim_cwd(st: &EnvState) -> &'static str {
    ["/sim/home/user", "/sim/scratch/job-17", "/"][(crate::rng::mix(&[0xCDu64, st.env_seed, st.env_epoch]) % 3) as usize]
}

/// Does `path` exist in the simulated file system of the current environment epoch? Decided per
/// (path, epoch); all spellings of one path (./x, x, a//b) get the same answer.
fn sim_exists(st: &mut EnvState, text: &str) -> bool {
    st.file_opens_total += 1;
    let canon = sim_canonical(st, text);
    st.files_opened.insert(text.to_string());
    let present = crate::rng::mix(&[crate::rng::hash_str(&canon), st.env_seed, st.env_epoch, 0xE715]) % 2 == 0;
    if !present {
        st.file_opens_denied += 1;
    }
    present
}

/// Lexical canonical form against the simulated working directory.
fn sim_canonical(st: &EnvState, text: &str) -> String {
    let joined = if text.starts_with('/') { text.to_string() } else { format!("{}/{}", sim_cwd(st), text) };
    let mut parts: Vec<&str> = vec![];
    for comp in joined.split('/') {
        match comp {
            "" | "." => {}
            ".." => {
                parts.pop();
            }
            c => parts.push(c),
        }
    }
    format!("/{}", parts.join("/"))
}

unsafe fn sim_path_query(path: *const std::os::raw::c_char) -> Option<(bool, String)> {
    let env = active();
    if env.is_null() || path.is_null() {
        return None;
    }
    let text = std::ffi::CStr::from_ptr(path).to_string_lossy().to_string();
    let mut st = (*env).lock().unwrap_or_else(|e| e.into_inner());
    let present = sim_exists(&mut st, &text);
    let canon = sim_canonical(&st, &text);
    Some((present, canon))
}

/// `realpath` (behind `std::fs::canonicalize`): for simulated caller threads a path exists in
/// some environment epochs and not in others; when it exists its canonical form is computed
/// lexically against the simulated working directory.
#[no_mangle]
pub unsafe extern "C" fn realpath(path: *const std::os::raw::c_char, resolved: *mut std::os::raw::c_char) -> *mut std::os::raw::c_char {
    extern "C" {
        fn malloc(n: usize) -> *mut c_void;
    }
    let (present, canon) = match sim_path_query(path) {
        Some(r) => r,
        None => {
            // not a simulated thread: resolve lexically against the real working directory
            if path.is_null() {
                *__errno_location() = 22;
                return std::ptr::null_mut();
            }
            let text = std::ffi::CStr::from_ptr(path).to_string_lossy().to_string();
            let mut buf = [0u8; 4096];
            let cwd = if syscall(79, buf.as_mut_ptr(), 4096 as c_long) > 0 {
                std::ffi::CStr::from_ptr(buf.as_ptr() as *const std::os::raw::c_char).to_string_lossy().to_string()
            } else {
                "/".to_string()
            };
            let joined = if text.starts_with('/') { text } else { format!("{cwd}/{text}") };
            let mut parts: Vec<&str> = vec![];
            for comp in joined.split('/') {
                match comp {
                    "" | "." => {}
                    ".." => {
                        parts.pop();
                    }
                    c => parts.push(c),
                }
            }
            (true, format!("/{}", parts.join("/")))
        }
    };
    if !present {
        *__errno_location() = ENOENT;
        return std::ptr::null_mut();
    }
    let bytes = canon.as_bytes();
    let out = if resolved.is_null() { malloc(bytes.len() + 1) as *mut u8 } else { resolved as *mut u8 };
    if out.is_null() {
        *__errno_location() = 12;
        return std::ptr::null_mut();
    }
    std::ptr::copy_nonoverlapping(bytes.as_ptr(), out, bytes.len());
    *out.add(bytes.len()) = 0;
    out as *mut std::os::raw::c_char
}

/// `access` / `faccessat` (existence checks): same simulated file system.
#[no_mangle]
pub unsafe extern "C" fn access(path: *const std::os::raw::c_char, mode: c_int) -> c_int {
    match sim_path_query(path) {
        Some((true, _)) => 0,
        Some((false, _)) => {
            *__errno_location() = ENOENT;
            -1
        }
        None => {
            let r = syscall(21, path, mode as c_long);
            if r < 0 {
                *__errno_location() = (-r) as c_int;
                -1
            } else {
                0
            }
        }
    }
}

/// `statx` (behind `std::fs::metadata`, `Path::exists`, `Path::is_file`): a path that exists in
/// this epoch is reported as a small regular file.
#[no_mangle]
pub unsafe extern "C" fn statx(dirfd: c_int, path: *const std::os::raw::c_char, flags: c_int, mask: c_uint, buf: *mut u8) -> c_int {
    match sim_path_query(path) {
        Some((true, _)) if !buf.is_null() => {
            std::ptr::write_bytes(buf, 0, 256);
            // struct statx: stx_mask u32 @0, stx_blksize u32 @4, stx_nlink u32 @16, stx_mode u16 @28, stx_size u64 @40
            *(buf as *mut u32) = 0x7ff;
            *(buf.add(4) as *mut u32) = 4096;
            *(buf.add(16) as *mut u32) = 1;
            *(buf.add(28) as *mut u16) = 0o100644;
            *(buf.add(40) as *mut u64) = 42;
            0
        }
        Some(_) => {
            *__errno_location() = ENOENT;
            -1
        }
        None => {
            let r = syscall(332, dirfd as c_long, path, flags as c_long, mask as c_long, buf);
            if r < 0 {
                *__errno_location() = (-r) as c_int;
                -1
            } else {
                0
            }
        }
    }
}

/// `isatty` (behind `std::io::IsTerminal`): whether a standard stream of a simulated caller thread
/// is a terminal changes with the environment epoch (a change might colour its messages).
#[no_mangle]
pub unsafe extern "C" fn isatty(fd: c_int) -> c_int {
    let env = active();
    if !env.is_null() {
        let mut st = (*env).lock().unwrap_or_else(|e| e.into_inner());
        st.env_reads_total += 1;
        st.env_names.insert(format!("<isatty {fd}>"));
        if crate::rng::mix(&[0x77u64, fd as u64, st.env_seed, st.env_epoch]) % 2 == 0 {
            return 1;
        }
        *__errno_location() = 25; // ENOTTY
        return 0;
    }
    // TCGETS
    let mut termios = [0u8; 64];
    let r = syscall(16, fd as c_long, 0x5401 as c_long, termios.as_mut_ptr());
    if r == 0 {
        1
    } else {
        *__errno_location() = (-r) as c_int;
        0
    }
}

/// The working directory (`std::env::current_dir`): for simulated caller threads one of three
/// directories, chosen by the environment epoch (a change might make relative output file names
/// absolute at compile time).
#[no_mangle]
pub unsafe extern "C" fn getcwd(buf: *mut std::os::raw::c_char, size: usize) -> *mut std::os::raw::c_char {
    let env = active();
    if !env.is_null() && !buf.is_null() {
        let mut st = (*env).lock().unwrap_or_else(|e| e.into_inner());
        st.env_reads_total += 1;
        st.env_names.insert("<getcwd>".into());
        let mut d = sim_cwd(&st).as_bytes().to_vec();
        d.push(0);
        if d.len() > size {
            *__errno_location() = 34; // ERANGE
            return std::ptr::null_mut();
        }
        std::ptr::copy_nonoverlapping(d.as_ptr(), buf as *mut u8, d.len());
        return buf;
    }
    let r = syscall(79, buf, size as c_long);
    if r < 0 {
        *__errno_location() = (-r) as c_int;
        return std::ptr::null_mut();
    }
    buf
}

/// Fifth seam: the CPU set of the calling thread (`std::thread::available_parallelism`, which a
/// change might use as a default thread count). For simulated caller threads the mask holds
/// 1..=16 CPUs as a function of the environment epoch.
#[no_mangle]
pub unsafe extern "C" fn sched_getaffinity(pid: c_int, size: usize, mask: *mut u8) -> c_int {
    let env = active();
    if !env.is_null() && !mask.is_null() && size > 0 {
        let mut st = (*env).lock().unwrap_or_else(|e| e.into_inner());
        st.env_reads_total += 1;
        st.env_names.insert("<sched_getaffinity>".into());
        let n = 1 + (crate::rng::mix(&[0xC9u64, st.env_seed, st.env_epoch]) % 16) as usize;
        let bytes = std::slice::from_raw_parts_mut(mask, size);
        for b in bytes.iter_mut() {
            *b = 0;
        }
        for cpu in 0..n.min(size * 8) {
            bytes[cpu / 8] |= 1 << (cpu % 8);
        }
        return 0;
    }
    let r = syscall(204, pid as c_long, size as c_long, mask);
    if r < 0 {
        *__errno_location() = (-r) as c_int;
        return -1;
    }
    // the raw syscall returns the number of bytes written; libc's wrapper zero-fills the rest
    let written = r as usize;
    if written < size {
        let bytes = std::slice::from_raw_parts_mut(mask, size);
        for b in bytes[written..].iter_mut() {
            *b = 0;
        }
    }
    0
}

/// Self-test used by `fpsim selfcheck`: both seams must be live in this binary.
pub fn seams_are_live() -> Result<(), String> {
    let env = new_env(CLOCK_FLOOR + 12345);
    let e2 = env.clone();
    let r = std::thread::spawn(move || {
        let _g = enter(&e2, 77);
        let t = std::time::SystemTime::now()
            .duration_since(std::time::UNIX_EPOCH)
            .map(|d| d.as_secs())
            .unwrap_or(0);
        let order = |n: u32| {
            let mut m = std::collections::HashMap::new();
            for i in 0..n {
                m.insert(i, ());
            }
            m.keys().cloned().collect::<Vec<_>>()
        };
        let e = std::env::var_os("FPSIM_PROBE_VARIABLE_A").is_some() as u8 + std::env::var_os("FPSIM_PROBE_VARIABLE_B").is_some() as u8 + std::env::var_os("FPSIM_PROBE_VARIABLE_C").is_some() as u8 + std::env::var_os("FPSIM_PROBE_VARIABLE_D").is_some() as u8;
        let _ = e;
        for name in ["/nonexistent/fpsim-probe-a", "/nonexistent/fpsim-probe-b", "/etc/hostname", "/etc/passwd"] {
            let _ = std::fs::File::open(name);
        }
        (t, order(16))
    })
    .join()
    .map_err(|_| "seam probe thread panicked".to_string())?;
    let e3 = env.clone();
    let r2 = std::thread::spawn(move || {
        let _g = enter(&e3, 77);
        let mut m = std::collections::HashMap::new();
        for i in 0..16u32 {
            m.insert(i, ());
        }
        m.keys().cloned().collect::<Vec<_>>()
    })
    .join()
    .map_err(|_| "seam probe thread panicked".to_string())?;
    if r.0 != CLOCK_FLOOR + 12345 {
        return Err(format!("clock seam not live: read {}", r.0));
    }
    if r.1 != r2 {
        return Err("hash-key seam not live: same key gave different iteration orders".into());
    }
    let st = env.lock().unwrap();
    if st.getrandom_calls < 2 || st.wall_reads_total < 1 {
        return Err("seam counters did not move".into());
    }
    if st.file_opens_total < 4 {
        return Err("file-open seam not live: opens of the probe thread were not seen".into());
    }
    if st.env_reads_total < 4 {
        return Err("environment seam not live: getenv calls of the probe thread were not seen".into());
    }
    Ok(())
}
