//! Seams owned by the simulator, placed at the libc boundary.
//!
//! find-parser has no injectable clock or hasher, but everything it (or std on its behalf) can
//! learn about the outside world goes through two libc entry points, and the standard library
//! resolves both by symbol name at link time:
//!
//! * `clock_gettime` — behind `SystemTime::now()` / `Instant::now()`;
//! * `getrandom` — behind `RandomState::new()`, i.e. the per-thread SipHash keys of every
//!   `HashMap`/`HashSet` (std declares this symbol weak precisely so that it can be interposed).
//!
//! Defining the two symbols in this binary makes the simulator the provider of both for the
//! threads it marks as *simulated caller threads*. All other threads (the coordinator, shuttle's
//! internals) are passed through to the kernel. Nothing in /repo is changed or feature-gated.

use std::cell::Cell;
use std::collections::VecDeque;
use std::os::raw::{c_int, c_long, c_uint, c_void};
use std::sync::{Arc, Mutex};

/// Simulated wall clock never goes below this (2001-09-09); user constants in generated
/// expressions stay below it, so a clock value can be recognised in emitted text.
pub const CLOCK_FLOOR: u64 = 1_000_000_007;
/// Upper bound kept well inside i64 seconds.
pub const CLOCK_CEIL: u64 = (1 << 40) - 12_345;

#[derive(Debug, Default)]
pub struct EnvState {
    /// Current simulated wall-clock second.
    pub now: u64,
    /// Simulated monotonic second (follows forward motion of `now` only).
    pub mono: u64,
    /// Deltas applied before successive wall-clock reads of the operation in progress.
    pub script: VecDeque<i64>,
    /// Wall-clock values served during the operation in progress.
    pub served: Vec<u64>,
    pub wall_reads_total: u64,
    pub mono_reads_total: u64,
    pub getrandom_calls: u64,
    pub in_call_ticks: u64,
    pub in_call_back_steps: u64,
    /// environment: what `getenv(name)` answers is a function of (name, env_seed, env_epoch)
    pub env_seed: u64,
    pub env_epoch: u64,
    pub env_reads_total: u64,
    /// names the code under test asked for
    pub env_names: std::collections::BTreeSet<String>,
    /// files the code under test tried to open (the library performs no I/O today)
    pub files_opened: std::collections::BTreeSet<String>,
    pub file_opens_total: u64,
    pub file_opens_denied: u64,
    /// (environment epoch, mask) installed by the code under test through `umask`
    pub umask_set: Option<(u64, u32)>,
    pub cpu_ticks: u64,
}

pub type Env = Arc<Mutex<EnvState>>;

pub fn new_env(start: u64) -> Env {
    Arc::new(Mutex::new(EnvState { now: start, mono: 5_000, ..Default::default() }))
}

impl EnvState {
    /// Move the clock by `delta` seconds, clamped to [CLOCK_FLOOR, CLOCK_CEIL].
    pub fn shift(&mut self, delta: i64) {
        let target = if delta >= 0 {
            self.now.saturating_add(delta as u64).min(CLOCK_CEIL)
        } else {
            self.now.saturating_sub(delta.unsigned_abs()).max(CLOCK_FLOOR)
        };
        if target > self.now {
            self.mono += target - self.now;
        }
        self.now = target;
    }
}

thread_local! {
    static ACTIVE: Cell<*const Mutex<EnvState>> = const { Cell::new(std::ptr::null()) };
    static HASH_KEY: Cell<u64> = const { Cell::new(0) };
    static HASH_CTR: Cell<u64> = const { Cell::new(0) };
}

/// Guard marking the current OS thread as a simulated caller thread.
pub struct Entered {
    _env: Env,
}

/// Route this thread's clock and hash-key requests to `env`. `hash_key` seeds the bytes this
/// thread receives from `getrandom` (std asks once per thread, at its first `RandomState`).
pub fn enter(env: &Env, hash_key: u64) -> Entered {
    let keep = env.clone();
    ACTIVE.with(|a| a.set(Arc::as_ptr(&keep)));
    HASH_KEY.with(|k| k.set(hash_key));
    HASH_CTR.with(|k| k.set(0));
    Entered { _env: keep }
}

impl Drop for Entered {
    fn drop(&mut self) {
        let _ = ACTIVE.try_with(|a| a.set(std::ptr::null()));
    }
}

fn active() -> *const Mutex<EnvState> {
    ACTIVE.try_with(|a| a.get()).unwrap_or(std::ptr::null())
}

#[repr(C)]
pub struct Timespec {
    tv_sec: i64,
    tv_nsec: c_long,
}

/// A system call made directly (kernel convention: a negative return value is `-errno`). The
/// harness never goes through libc's `syscall` for its own needs, because that symbol is a seam too.
#[inline(never)]
unsafe fn raw_syscall(num: c_long, a1: usize, a2: usize, a3: usize, a4: usize, a5: usize, a6: usize) -> c_long {
    let ret: c_long;
    std::arch::asm!(
        "syscall",
        inlateout("rax") num => ret,
        in("rdi") a1,
        in("rsi") a2,
        in("rdx") a3,
        in("r10") a4,
        in("r8") a5,
        in("r9") a6,
        lateout("rcx") _,
        lateout("r11") _,
        options(nostack)
    );
    ret
}

macro_rules! sys {
    ($num:expr) => { raw_syscall($num as c_long, 0, 0, 0, 0, 0, 0) };
    ($num:expr, $a:expr) => { raw_syscall($num as c_long, $a as usize, 0, 0, 0, 0, 0) };
    ($num:expr, $a:expr, $b:expr) => { raw_syscall($num as c_long, $a as usize, $b as usize, 0, 0, 0, 0) };
    ($num:expr, $a:expr, $b:expr, $c:expr) => { raw_syscall($num as c_long, $a as usize, $b as usize, $c as usize, 0, 0, 0) };
    ($num:expr, $a:expr, $b:expr, $c:expr, $d:expr) => { raw_syscall($num as c_long, $a as usize, $b as usize, $c as usize, $d as usize, 0, 0) };
    ($num:expr, $a:expr, $b:expr, $c:expr, $d:expr, $e:expr) => { raw_syscall($num as c_long, $a as usize, $b as usize, $c as usize, $d as usize, $e as usize, 0) };
}

/// libc's `syscall(2)` wrapper: code that avoids the libc wrappers ("no libc dependency") reaches
/// the clock, the random pool and the identity of the process through it. For simulated caller
/// threads those numbers are served by the same seams; everything else, and every other thread
/// (std's futex calls come through here), is passed to the kernel unchanged.
#[no_mangle]
pub unsafe extern "C" fn syscall(num: c_long, a1: usize, a2: usize, a3: usize, a4: usize, a5: usize, a6: usize) -> c_long {
    if !active().is_null() {
        match num {
            228 => return clock_gettime(a1 as c_int, a2 as *mut Timespec) as c_long,
            318 => return getrandom(a1 as *mut c_void, a2, a3 as c_uint) as c_long,
            201 => return time(a1 as *mut i64) as c_long,
            96 => return gettimeofday(a1 as *mut i64, a2 as *mut c_void) as c_long,
            39 => return getpid() as c_long,
            110 => return getppid() as c_long,
            186 => return gettid() as c_long,
            102 => return getuid() as c_long,
            107 => return geteuid() as c_long,
            104 => return getgid() as c_long,
            108 => return getegid() as c_long,
            95 => return umask(a1 as c_uint) as c_long,
            63 => return uname(a1 as *mut u8) as c_long,
            309 => {
                let cpu = sched_getcpu();
                if a1 != 0 {
                    *(a1 as *mut c_uint) = cpu as c_uint;
                }
                if a2 != 0 {
                    *(a2 as *mut c_uint) = 0;
                }
                return 0;
            }
            _ => {}
        }
    }
    let r = raw_syscall(num, a1, a2, a3, a4, a5, a6);
    if (-4095..0).contains(&r) {
        *__errno_location() = (-r) as c_int;
        return -1;
    }
    r
}

#[cfg(not(all(target_os = "linux", target_arch = "x86_64")))]
compile_error!("the libc seams are written for x86_64 linux");

const SYS_CLOCK_GETTIME: c_long = 228;
const SYS_GETRANDOM: c_long = 318;

/// Sub-second part served with a wall-clock reading (nanoseconds).
fn sim_nanos(secs: u64, reads: u64) -> c_long {
    let h = crate::rng::mix(&[0x4E5, secs, reads]);
    (match h % 5 {
        0 => 0,
        1 => 999_999_999,
        2 => 500_000_000 + (h >> 8) % 1000,
        3 => 499_999_000 + (h >> 8) % 1000,
        _ => (h >> 8) % 1_000_000_000,
    }) as c_long
}

#[no_mangle]
pub unsafe extern "C" fn clock_gettime(clk: c_int, ts: *mut Timespec) -> c_int {
    let env = active();
    if !env.is_null() && !ts.is_null() {
        // 0 REALTIME, 5 REALTIME_COARSE, 11 TAI | 1 MONOTONIC, 4 MONOTONIC_RAW, 6 MONOTONIC_COARSE, 7 BOOTTIME
        let wall = matches!(clk, 0 | 5 | 11);
        let mono = matches!(clk, 1 | 4 | 6 | 7);
        if wall || mono {
            let mut st = (*env).lock().unwrap_or_else(|e| e.into_inner());
            let reads = st.wall_reads_total + st.mono_reads_total;
            let secs = if wall {
                if let Some(delta) = st.script.pop_front() {
                    if delta > 0 {
                        st.in_call_ticks += 1;
                    } else if delta < 0 {
                        st.in_call_back_steps += 1;
                    }
                    st.shift(delta);
                }
                st.wall_reads_total += 1;
                let v = st.now;
                st.served.push(v);
                v
            } else {
                st.mono_reads_total += 1;
                st.mono
            };
            (*ts).tv_sec = secs as i64;
            // the sub-second part is no function of anything: a result that rounds to the nearest
            // second, or carries milliseconds, must show. Often close to the edges of the second.
            (*ts).tv_nsec = if wall { sim_nanos(secs, reads) } else { 0 };
            return 0;
        }
    }
    let r = sys!(SYS_CLOCK_GETTIME, clk as c_long, ts);
    if r < 0 {
        *__errno_location() = (-r) as c_int;
        return -1;
    }
    0
}

#[no_mangle]
pub unsafe extern "C" fn getrandom(buf: *mut c_void, len: usize, flags: c_uint) -> isize {
    let env = active();
    if !env.is_null() && !buf.is_null() {
        {
            let mut st = (*env).lock().unwrap_or_else(|e| e.into_inner());
            st.getrandom_calls += 1;
        }
        let key = HASH_KEY.with(|k| k.get());
        let out = std::slice::from_raw_parts_mut(buf as *mut u8, len);
        for chunk in out.chunks_mut(8) {
            let ctr = HASH_CTR.with(|c| {
                let v = c.get();
                c.set(v + 1);
                v
            });
            let word = crate::rng::mix(&[key, ctr]).to_ne_bytes();
            chunk.copy_from_slice(&word[..chunk.len()]);
        }
        return len as isize;
    }
    let r = sys!(SYS_GETRANDOM, buf, len, flags as c_long);
    if r < 0 {
        *__errno_location() = (-r) as c_int;
        return -1;
    }
    r as isize
}

extern "C" {
    static environ: *const *const std::os::raw::c_char;
}

unsafe fn real_getenv(name: &[u8]) -> *mut std::os::raw::c_char {
    let real = REAL_ENVIRON.load(std::sync::atomic::Ordering::SeqCst);
    let mut p = if real != 0 { real as *const *const std::os::raw::c_char } else { environ };
    if p.is_null() {
        return std::ptr::null_mut();
    }
    while !(*p).is_null() {
        let entry = std::ffi::CStr::from_ptr(*p).to_bytes();
        if entry.len() > name.len() && &entry[..name.len()] == name && entry[name.len()] == b'=' {
            return (*p).add(name.len() + 1) as *mut std::os::raw::c_char;
        }
        p = p.add(1);
    }
    std::ptr::null_mut()
}

/// What a simulated caller thread finds in the process environment under `name`: a function of
/// (name, environment seed, environment epoch). `None` = unset. The same function feeds `getenv`
/// and the `environ` block (below), so the two views agree.
fn sim_env_value(name: &str, env_seed: u64, env_epoch: u64) -> Option<&'static str> {
    let h = crate::rng::mix(&[crate::rng::hash_str(name), env_seed, env_epoch]);
    let pick = |choices: &[Option<&'static str>]| choices[(h % choices.len() as u64) as usize];
    let upper = name.to_ascii_uppercase();
    if upper == "TZ" {
        // POSIX-style zones need no zone file
        pick(&[None, Some("UTC0"), Some("JST-9"), Some("PST8PDT"), Some("<+1245>-12:45")])
    } else if upper == "LANG" || upper.starts_with("LC_") || upper == "LANGUAGE" {
        pick(&[None, Some("C"), Some("en_US.UTF-8"), Some("de_DE.UTF-8"), Some("tr_TR.UTF-8")])
    } else if upper == "HOME" || upper == "TMPDIR" || upper == "PWD" || upper.ends_with("DIR") || upper.ends_with("PATH") || upper.ends_with("PREFIX") {
        pick(&[None, Some("/sim/home/user"), Some("/tmp"), Some("/scratch/job-17/")])
    } else if upper == "USER" || upper == "LOGNAME" || upper.ends_with("USER") {
        pick(&[None, Some("root"), Some("alice"), Some("svc-lipe")])
    } else if upper.contains("THREAD") || upper.contains("JOBS") || upper == "COLUMNS" || upper.contains("SIZE") || upper.contains("LEVEL") || upper.contains("COUNT") {
        pick(&[None, None, Some("1"), Some("4"), Some("80"), Some("0")])
    } else {
        pick(&[None, None, Some("1"), Some("")])
    }
}

/// Names a simulated `environ` block offers (besides whatever `getenv` is asked for by name): the
/// usual suspects plus every word of the library's own string literals that looks like the name
/// of an environment variable (a prefix such as `LIPE_` is completed).
fn sim_env_names() -> Vec<String> {
    let mut names: Vec<String> = [
        "TZ", "LANG", "LC_ALL", "LC_TIME", "LC_COLLATE", "HOME", "USER", "LOGNAME", "TMPDIR", "PATH", "PWD", "SHELL", "TERM", "COLUMNS", "NO_COLOR", "CLICOLOR_FORCE",
        "POSIXLY_CORRECT", "BLOCK_SIZE", "BLOCKSIZE", "FIND_BLOCK_SIZE", "LIPE_FIND_THREADS", "LIPE_FIND_OPTIONS", "LIPE_FIND_DEBUG", "LIPE_THREADS", "LIPE_DEBUG",
        "LIPE_OUTPUT_DIR", "LFIND_OPTS", "LFIND_THREADS", "OMP_NUM_THREADS", "SLURM_JOB_ID", "HOSTNAME", "SOURCE_DATE_EPOCH",
    ]
    .iter()
    .map(|s| s.to_string())
    .collect();
    for w in crate::gen::dictionary() {
        let looks = w.len() >= 3 && w.chars().all(|c| c.is_ascii_uppercase() || c.is_ascii_digit() || c == '_') && w.chars().any(|c| c.is_ascii_uppercase());
        if looks {
            if w.ends_with('_') {
                for suffix in ["THREADS", "OPTIONS", "DEBUG", "DIR"] {
                    names.push(format!("{w}{suffix}"));
                }
            } else {
                names.push(w.clone());
            }
        }
    }
    names.sort();
    names.dedup();
    names
}

thread_local! {
    /// value strings handed out by `getenv` to this thread stay alive until the thread ends
    static ENV_ANSWERS: std::cell::RefCell<Vec<std::ffi::CString>> = const { std::cell::RefCell::new(Vec::new()) };
}

/// Third seam: the process environment. For simulated caller threads every variable the code
/// under test asks for has a value (or none) decided by the simulator per (name, environment
/// epoch); `RUST_*` names (std's own knobs) are passed through.
#[no_mangle]
pub unsafe extern "C" fn getenv(name: *const std::os::raw::c_char) -> *mut std::os::raw::c_char {
    if name.is_null() {
        return std::ptr::null_mut();
    }
    let bytes = std::ffi::CStr::from_ptr(name).to_bytes();
    let env = active();
    if !env.is_null() && !bytes.starts_with(b"RUST_") {
        let mut st = (*env).lock().unwrap_or_else(|e| e.into_inner());
        st.env_reads_total += 1;
        let text = String::from_utf8_lossy(bytes).to_string();
        let v = sim_env_value(&text, st.env_seed, st.env_epoch);
        st.env_names.insert(text);
        return match v {
            None => std::ptr::null_mut(),
            Some(val) => ENV_ANSWERS.with(|a| {
                let c = std::ffi::CString::new(val).unwrap_or_default();
                let p = c.as_ptr() as *mut std::os::raw::c_char;
                a.borrow_mut().push(c);
                p
            }),
        };
    }
    real_getenv(bytes)
}

/// The `environ` block itself (behind `std::env::vars()`, and behind glibc's *internal* lookups
/// such as `tzset` reading `TZ`, which do not go through the interposable `getenv`). It is one
/// pointer per process, so it is swapped for the duration of one operation of one simulated
/// caller thread — the simulator releases one operation at a time — and restored afterwards.
pub struct EnvironGuard {
    saved: *const *const std::os::raw::c_char,
    _strings: Vec<std::ffi::CString>,
    _block: Vec<*const std::os::raw::c_char>,
}

static REAL_ENVIRON: std::sync::atomic::AtomicUsize = std::sync::atomic::AtomicUsize::new(0);

pub fn swap_environ(env: &Env) -> EnvironGuard {
    extern "C" {
        static mut environ: *const *const std::os::raw::c_char;
    }
    let (seed, epoch) = {
        let st = env.lock().unwrap_or_else(|e| e.into_inner());
        (st.env_seed, st.env_epoch)
    };
    let mut strings = vec![];
    for n in sim_env_names() {
        if let Some(v) = sim_env_value(&n, seed, epoch) {
            if let Ok(c) = std::ffi::CString::new(format!("{n}={v}")) {
                strings.push(c);
            }
        }
    }
    unsafe {
        // std's own knobs stay what they are
        let mut p = environ;
        while !p.is_null() && !(*p).is_null() {
            let entry = std::ffi::CStr::from_ptr(*p);
            if entry.to_bytes().starts_with(b"RUST_") {
                strings.push(entry.to_owned());
            }
            p = p.add(1);
        }
    }
    let mut block: Vec<*const std::os::raw::c_char> = strings.iter().map(|c| c.as_ptr()).collect();
    block.push(std::ptr::null());
    unsafe {
        let saved = environ;
        REAL_ENVIRON.store(saved as usize, std::sync::atomic::Ordering::SeqCst);
        environ = block.as_ptr();
        EnvironGuard { saved, _strings: strings, _block: block }
    }
}

impl Drop for EnvironGuard {
    fn drop(&mut self) {
        extern "C" {
            static mut environ: *const *const std::os::raw::c_char;
        }
        unsafe {
            environ = self.saved;
        }
        REAL_ENVIRON.store(0, std::sync::atomic::Ordering::SeqCst);
    }
}

extern "C" {
    fn __errno_location() -> *mut c_int;
}

const SYS_OPENAT: c_long = 257;
const AT_FDCWD: c_long = -100;
const ENOENT: c_int = 2;

/// Fourth seam: opening files. The library reads no file today; if a change makes it consult the
/// file system (a user database, /proc, a configuration file), the simulator sees the path and
/// makes the file appear and disappear with the environment epoch (ENOENT in half of the epochs),
/// so that a result depending on it shows up as a difference between equal inputs.
/// Resource limits of the process (soft, hard) as simulated caller threads see them: a function of
/// the environment epoch. 7 = RLIMIT_NOFILE, 3 = RLIMIT_STACK, 9 = RLIMIT_AS.
fn sim_rlimit(resource: c_int) -> Option<(u64, u64)> {
    let v = sim_identity(0xC3 ^ resource as u64, "rlimit", 5)? as usize;
    const INF: u64 = u64::MAX;
    Some(match resource {
        7 => [(24, 4096), (32, 32), (64, 1024), (1024, 4096), (20_000, 20_000)][v],
        3 => [(8 << 20, INF), (1 << 20, 1 << 20), (INF, INF), (256 << 10, INF), (64 << 20, INF)][v],
        _ => [(INF, INF), (INF, INF), (1 << 30, INF), (INF, INF), (4u64 << 30, 4u64 << 30)][v],
    })
}

#[repr(C)]
pub struct Rlimit {
    cur: u64,
    max: u64,
}

#[no_mangle]
pub unsafe extern "C" fn getrlimit(resource: c_int, out: *mut Rlimit) -> c_int {
    prlimit64(0, resource, std::ptr::null(), out)
}

#[no_mangle]
pub unsafe extern "C" fn getrlimit64(resource: c_int, out: *mut Rlimit) -> c_int {
    prlimit64(0, resource, std::ptr::null(), out)
}

#[no_mangle]
pub unsafe extern "C" fn prlimit(pid: c_int, resource: c_int, new: *const Rlimit, old: *mut Rlimit) -> c_int {
    prlimit64(pid, resource, new, old)
}

#[no_mangle]
pub unsafe extern "C" fn prlimit64(pid: c_int, resource: c_int, new: *const Rlimit, old: *mut Rlimit) -> c_int {
    if pid == 0 && new.is_null() && !old.is_null() {
        if let Some((cur, max)) = sim_rlimit(resource) {
            (*old).cur = cur;
            (*old).max = max;
            return 0;
        }
    }
    let r = sys!(302, pid, resource, new, old);
    if r < 0 {
        *__errno_location() = (-r) as c_int;
        return -1;
    }
    0
}

/// A file whose content the simulator writes itself (an anonymous memory file).
unsafe fn synthetic_file(content: &str) -> c_int {
    let fd = sys!(319, b"fpsim\0".as_ptr(), 0) as c_int; // memfd_create
    if fd < 0 {
        *__errno_location() = ENOENT;
        return -1;
    }
    sys!(1, fd, content.as_ptr(), content.len()); // write
    sys!(8, fd, 0, 0); // lseek(fd, 0, SEEK_SET)
    fd
}

fn sim_proc_limits() -> String {
    let show = |v: u64| if v == u64::MAX { "unlimited".to_string() } else { v.to_string() };
    let (nofile, stack, addr) = (sim_rlimit(7).unwrap_or((1024, 4096)), sim_rlimit(3).unwrap_or((8 << 20, u64::MAX)), sim_rlimit(9).unwrap_or((u64::MAX, u64::MAX)));
    let mut out = String::from("Limit                     Soft Limit           Hard Limit           Units     \n");
    let mut row = |name: &str, soft: String, hard: String, units: &str| out.push_str(&format!("{name:<26}{soft:<21}{hard:<21}{units:<10}\n"));
    row("Max cpu time", "unlimited".into(), "unlimited".into(), "seconds");
    row("Max file size", "unlimited".into(), "unlimited".into(), "bytes");
    row("Max data size", "unlimited".into(), "unlimited".into(), "bytes");
    row("Max stack size", show(stack.0), show(stack.1), "bytes");
    row("Max core file size", "0".into(), "unlimited".into(), "bytes");
    row("Max resident set", "unlimited".into(), "unlimited".into(), "bytes");
    row("Max processes", "127422".into(), "127422".into(), "processes");
    row("Max open files", show(nofile.0), show(nofile.1), "files");
    row("Max locked memory", "8388608".into(), "8388608".into(), "bytes");
    row("Max address space", show(addr.0), show(addr.1), "bytes");
    row("Max file locks", "unlimited".into(), "unlimited".into(), "locks");
    row("Max pending signals", "127422".into(), "127422".into(), "signals");
    row("Max msgqueue size", "819200".into(), "819200".into(), "bytes");
    row("Max nice priority", "0".into(), "0".into(), "");
    row("Max realtime priority", "0".into(), "0".into(), "");
    row("Max realtime timeout", "unlimited".into(), "unlimited".into(), "us");
    out
}

unsafe fn sim_open(dirfd: c_long, path: *const std::os::raw::c_char, flags: c_int, mode: c_uint) -> c_int {
    let env = active();
    if !env.is_null() && !path.is_null() {
        let text = std::ffi::CStr::from_ptr(path).to_string_lossy().to_string();
        let present = {
            let mut st = (*env).lock().unwrap_or_else(|e| e.into_inner());
            sim_exists(&mut st, &text)
        };
        if !present {
            *__errno_location() = ENOENT;
            return -1;
        }
        // what the process can read about itself is simulated too
        if text == "/proc/self/limits" || text.ends_with("/limits") && text.starts_with("/proc/") {
            return synthetic_file(&sim_proc_limits());
        }
    }
    let r = sys!(SYS_OPENAT, dirfd, path, flags as c_long, mode as c_long);
    if r < 0 {
        *__errno_location() = (-r) as c_int;
        return -1;
    }
    r as c_int
}

#[no_mangle]
pub unsafe extern "C" fn open64(path: *const std::os::raw::c_char, flags: c_int, mode: c_uint) -> c_int {
    sim_open(AT_FDCWD, path, flags, mode)
}

#[no_mangle]
pub unsafe extern "C" fn open(path: *const std::os::raw::c_char, flags: c_int, mode: c_uint) -> c_int {
    sim_open(AT_FDCWD, path, flags, mode)
}

#[no_mangle]
pub unsafe extern "C" fn openat(dirfd: c_int, path: *const std::os::raw::c_char, flags: c_int, mode: c_uint) -> c_int {
    sim_open(dirfd as c_long, path, flags, mode)
}

#[no_mangle]
pub unsafe extern "C" fn openat64(dirfd: c_int, path: *const std::os::raw::c_char, flags: c_int, mode: c_uint) -> c_int {
    sim_open(dirfd as c_long, path, flags, mode)
}

fn sim_cwd(st: &EnvState) -> &'static str {
    ["/sim/home/user", "/sim/scratch/job-17", "/"][(crate::rng::mix(&[0xCDu64, st.env_seed, st.env_epoch]) % 3) as usize]
}

/// Does `path` exist in the simulated file system of the current environment epoch? Decided per
/// (path, epoch); all spellings of one path (./x, x, a//b) get the same answer.
fn sim_exists(st: &mut EnvState, text: &str) -> bool {
    st.file_opens_total += 1;
    let canon = sim_canonical(st, text);
    st.files_opened.insert(text.to_string());
    let present = crate::rng::mix(&[crate::rng::hash_str(&canon), st.env_seed, st.env_epoch, 0xE715]) % 2 == 0;
    if !present {
        st.file_opens_denied += 1;
    }
    present
}

/// Lexical canonical form against the simulated working directory.
fn sim_canonical(st: &EnvState, text: &str) -> String {
    let joined = if text.starts_with('/') { text.to_string() } else { format!("{}/{}", sim_cwd(st), text) };
    let mut parts: Vec<&str> = vec![];
    for comp in joined.split('/') {
        match comp {
            "" | "." => {}
            ".." => {
                parts.pop();
            }
            c => parts.push(c),
        }
    }
    format!("/{}", parts.join("/"))
}

unsafe fn sim_path_query(path: *const std::os::raw::c_char) -> Option<(bool, String)> {
    let env = active();
    if env.is_null() || path.is_null() {
        return None;
    }
    let text = std::ffi::CStr::from_ptr(path).to_string_lossy().to_string();
    let mut st = (*env).lock().unwrap_or_else(|e| e.into_inner());
    let present = sim_exists(&mut st, &text);
    let canon = sim_canonical(&st, &text);
    Some((present, canon))
}

/// `realpath` (behind `std::fs::canonicalize`): for simulated caller threads a path exists in
/// some environment epochs and not in others; when it exists its canonical form is computed
/// lexically against the simulated working directory.
#[no_mangle]
pub unsafe extern "C" fn realpath(path: *const std::os::raw::c_char, resolved: *mut std::os::raw::c_char) -> *mut std::os::raw::c_char {
    extern "C" {
        fn malloc(n: usize) -> *mut c_void;
    }
    let (present, canon) = match sim_path_query(path) {
        Some(r) => r,
        None => {
            // not a simulated thread: resolve lexically against the real working directory
            if path.is_null() {
                *__errno_location() = 22;
                return std::ptr::null_mut();
            }
            let text = std::ffi::CStr::from_ptr(path).to_string_lossy().to_string();
            let mut buf = [0u8; 4096];
            let cwd = if sys!(79, buf.as_mut_ptr(), 4096 as c_long) > 0 {
                std::ffi::CStr::from_ptr(buf.as_ptr() as *const std::os::raw::c_char).to_string_lossy().to_string()
            } else {
                "/".to_string()
            };
            let joined = if text.starts_with('/') { text } else { format!("{cwd}/{text}") };
            let mut parts: Vec<&str> = vec![];
            for comp in joined.split('/') {
                match comp {
                    "" | "." => {}
                    ".." => {
                        parts.pop();
                    }
                    c => parts.push(c),
                }
            }
            (true, format!("/{}", parts.join("/")))
        }
    };
    if !present {
        *__errno_location() = ENOENT;
        return std::ptr::null_mut();
    }
    let bytes = canon.as_bytes();
    let out = if resolved.is_null() { malloc(bytes.len() + 1) as *mut u8 } else { resolved as *mut u8 };
    if out.is_null() {
        *__errno_location() = 12;
        return std::ptr::null_mut();
    }
    std::ptr::copy_nonoverlapping(bytes.as_ptr(), out, bytes.len());
    *out.add(bytes.len()) = 0;
    out as *mut std::os::raw::c_char
}

/// `access` / `faccessat` (existence checks): same simulated file system.
#[no_mangle]
pub unsafe extern "C" fn access(path: *const std::os::raw::c_char, mode: c_int) -> c_int {
    match sim_path_query(path) {
        Some((true, _)) => 0,
        Some((false, _)) => {
            *__errno_location() = ENOENT;
            -1
        }
        None => {
            let r = sys!(21, path, mode as c_long);
            if r < 0 {
                *__errno_location() = (-r) as c_int;
                -1
            } else {
                0
            }
        }
    }
}

/// `statx` (behind `std::fs::metadata`, `Path::exists`, `Path::is_file`): a path that exists in
/// this epoch is reported as a small regular file.
#[no_mangle]
pub unsafe extern "C" fn statx(dirfd: c_int, path: *const std::os::raw::c_char, flags: c_int, mask: c_uint, buf: *mut u8) -> c_int {
    match sim_path_query(path) {
        Some((true, _)) if !buf.is_null() => {
            std::ptr::write_bytes(buf, 0, 256);
            // struct statx: stx_mask u32 @0, stx_blksize u32 @4, stx_nlink u32 @16, stx_mode u16 @28, stx_size u64 @40
            *(buf as *mut u32) = 0x7ff;
            *(buf.add(4) as *mut u32) = 4096;
            *(buf.add(16) as *mut u32) = 1;
            *(buf.add(28) as *mut u16) = 0o100644;
            // size, owner and time stamps are functions of (path, epoch) like existence itself
            // struct statx: stx_uid u32 @20, stx_gid u32 @24, stx_size u64 @40, stx_atime @64,
            // stx_btime @80, stx_ctime @96, stx_mtime @112 (each: tv_sec i64, tv_nsec u32)
            let h = sim_identity(0xB7 ^ crate::rng::hash_str(&std::ffi::CStr::from_ptr(path).to_string_lossy()), "statx fields", u64::MAX).unwrap_or(0);
            *(buf.add(20) as *mut u32) = [0u32, 1000, 60_001][(h % 3) as usize];
            *(buf.add(24) as *mut u32) = [0u32, 100, 60_001][((h >> 2) % 3) as usize];
            *(buf.add(40) as *mut u64) = [0u64, 42, 4096, 1 << 31][((h >> 4) % 4) as usize];
            for (k, off) in [64usize, 80, 96, 112].iter().enumerate() {
                *(buf.add(*off) as *mut i64) = 1_400_000_000 + ((h >> (8 + 8 * k)) % 300_000_000) as i64;
                *(buf.add(*off + 8) as *mut u32) = ((h >> 40) % 1_000_000_000) as u32;
            }
            0
        }
        Some(_) => {
            *__errno_location() = ENOENT;
            -1
        }
        None => {
            let r = sys!(332, dirfd as c_long, path, flags as c_long, mask as c_long, buf);
            if r < 0 {
                *__errno_location() = (-r) as c_int;
                -1
            } else {
                0
            }
        }
    }
}

/// `isatty` (behind `std::io::IsTerminal`): whether a standard stream of a simulated caller thread
/// is a terminal changes with the environment epoch (a change might colour its messages).
#[no_mangle]
pub unsafe extern "C" fn isatty(fd: c_int) -> c_int {
    let env = active();
    if !env.is_null() {
        let mut st = (*env).lock().unwrap_or_else(|e| e.into_inner());
        st.env_reads_total += 1;
        st.env_names.insert(format!("<isatty {fd}>"));
        if crate::rng::mix(&[0x77u64, fd as u64, st.env_seed, st.env_epoch]) % 2 == 0 {
            return 1;
        }
        *__errno_location() = 25; // ENOTTY
        return 0;
    }
    // TCGETS
    let mut termios = [0u8; 64];
    let r = sys!(16, fd as c_long, 0x5401 as c_long, termios.as_mut_ptr());
    if r == 0 {
        1
    } else {
        *__errno_location() = (-r) as c_int;
        0
    }
}

/// The working directory (`std::env::current_dir`): for simulated caller threads one of three
/// directories, chosen by the environment epoch (a change might make relative output file names
/// absolute at compile time).
#[no_mangle]
pub unsafe extern "C" fn getcwd(buf: *mut std::os::raw::c_char, size: usize) -> *mut std::os::raw::c_char {
    let env = active();
    if !env.is_null() && !buf.is_null() {
        let mut st = (*env).lock().unwrap_or_else(|e| e.into_inner());
        st.env_reads_total += 1;
        st.env_names.insert("<getcwd>".into());
        let mut d = sim_cwd(&st).as_bytes().to_vec();
        d.push(0);
        if d.len() > size {
            *__errno_location() = 34; // ERANGE
            return std::ptr::null_mut();
        }
        std::ptr::copy_nonoverlapping(d.as_ptr(), buf as *mut u8, d.len());
        return buf;
    }
    let r = sys!(79, buf, size as c_long);
    if r < 0 {
        *__errno_location() = (-r) as c_int;
        return std::ptr::null_mut();
    }
    buf
}

/// Fifth seam: the CPU set of the calling thread (`std::thread::available_parallelism`, which a
/// change might use as a default thread count). For simulated caller threads the mask holds
/// 1..=16 CPUs as a function of the environment epoch.
#[no_mangle]
pub unsafe extern "C" fn sched_getaffinity(pid: c_int, size: usize, mask: *mut u8) -> c_int {
    let env = active();
    if !env.is_null() && !mask.is_null() && size > 0 {
        let mut st = (*env).lock().unwrap_or_else(|e| e.into_inner());
        st.env_reads_total += 1;
        st.env_names.insert("<sched_getaffinity>".into());
        let n = 1 + (crate::rng::mix(&[0xC9u64, st.env_seed, st.env_epoch]) % 16) as usize;
        let bytes = std::slice::from_raw_parts_mut(mask, size);
        for b in bytes.iter_mut() {
            *b = 0;
        }
        for cpu in 0..n.min(size * 8) {
            bytes[cpu / 8] |= 1 << (cpu % 8);
        }
        return 0;
    }
    let r = sys!(204, pid as c_long, size as c_long, mask);
    if r < 0 {
        *__errno_location() = (-r) as c_int;
        return -1;
    }
    // the raw syscall returns the number of bytes written; libc's wrapper zero-fills the rest
    let written = r as usize;
    if written < size {
        let bytes = std::slice::from_raw_parts_mut(mask, size);
        for b in bytes[written..].iter_mut() {
            *b = 0;
        }
    }
    0
}

/// Identity of the process and of its user (`std::process::id`, or `getuid`/`gethostname` called
/// directly by a change that wants "my files" or a per-host default): for simulated caller threads
/// a function of the environment epoch. In a real deployment all of these differ between the
/// processes and machines that compile the same expression.
fn sim_identity(tag: u64, what: &str, modulo: u64) -> Option<u64> {
    let env = active();
    if env.is_null() {
        return None;
    }
    let mut st = unsafe { (*env).lock().unwrap_or_else(|e| e.into_inner()) };
    st.env_reads_total += 1;
    st.env_names.insert(format!("<{what}>"));
    Some(crate::rng::mix(&[tag, st.env_seed, st.env_epoch]) % modulo)
}

#[no_mangle]
pub unsafe extern "C" fn getpid() -> c_int {
    match sim_identity(0xA1, "getpid", 4_000_000) {
        Some(v) => 2 + v as c_int,
        None => sys!(39) as c_int,
    }
}

#[no_mangle]
pub unsafe extern "C" fn getppid() -> c_int {
    match sim_identity(0xA2, "getppid", 4_000_000) {
        Some(v) => 1 + v as c_int,
        None => sys!(110) as c_int,
    }
}

#[no_mangle]
pub unsafe extern "C" fn gettid() -> c_int {
    match sim_identity(0xA9, "gettid", 4_000_000) {
        Some(v) => 2 + v as c_int,
        None => sys!(186) as c_int,
    }
}

#[no_mangle]
pub unsafe extern "C" fn getuid() -> c_uint {
    match sim_identity(0xA3, "getuid", 3) {
        Some(v) => [0u32, 1000, 60_001][v as usize],
        None => sys!(102) as c_uint,
    }
}

#[no_mangle]
pub unsafe extern "C" fn geteuid() -> c_uint {
    match sim_identity(0xA3, "geteuid", 3) {
        Some(v) => [0u32, 1000, 60_001][v as usize],
        None => sys!(107) as c_uint,
    }
}

#[no_mangle]
pub unsafe extern "C" fn getgid() -> c_uint {
    match sim_identity(0xA4, "getgid", 3) {
        Some(v) => [0u32, 100, 60_001][v as usize],
        None => sys!(104) as c_uint,
    }
}

#[no_mangle]
pub unsafe extern "C" fn getegid() -> c_uint {
    match sim_identity(0xA4, "getegid", 3) {
        Some(v) => [0u32, 100, 60_001][v as usize],
        None => sys!(108) as c_uint,
    }
}

const SIM_HOSTS: [&str; 3] = ["mds01", "login-3.cluster.example", "n"];

#[no_mangle]
pub unsafe extern "C" fn gethostname(buf: *mut std::os::raw::c_char, len: usize) -> c_int {
    if let Some(v) = sim_identity(0xA5, "gethostname", 3) {
        let name = SIM_HOSTS[v as usize].as_bytes();
        if buf.is_null() || len == 0 {
            *__errno_location() = 22;
            return -1;
        }
        let n = name.len().min(len - 1);
        std::ptr::copy_nonoverlapping(name.as_ptr(), buf as *mut u8, n);
        *(buf as *mut u8).add(n) = 0;
        return 0;
    }
    // struct utsname: six fields of 65 bytes; nodename is the second
    let mut uts = [0u8; 65 * 6];
    let r = sys!(63, uts.as_mut_ptr());
    if r < 0 || buf.is_null() || len == 0 {
        *__errno_location() = 22;
        return -1;
    }
    let node = &uts[65..130];
    let n = node.iter().position(|b| *b == 0).unwrap_or(64).min(len - 1);
    std::ptr::copy_nonoverlapping(node.as_ptr(), buf as *mut u8, n);
    *(buf as *mut u8).add(n) = 0;
    0
}

#[no_mangle]
pub unsafe extern "C" fn uname(buf: *mut u8) -> c_int {
    if buf.is_null() {
        *__errno_location() = 14;
        return -1;
    }
    let r = sys!(63, buf);
    if r < 0 {
        *__errno_location() = (-r) as c_int;
        return -1;
    }
    if let Some(v) = sim_identity(0xA5, "uname", 3) {
        let name = SIM_HOSTS[v as usize].as_bytes();
        std::ptr::write_bytes(buf.add(65), 0, 65);
        std::ptr::copy_nonoverlapping(name.as_ptr(), buf.add(65), name.len().min(64));
    }
    0
}

/// `readlink` / `readlinkat` (behind `std::fs::read_link` and `std::env::current_exe`): for
/// simulated caller threads a link exists or not with the environment epoch, and where it exists
/// its target is one of three places (a change might derive default file names from the program's
/// own location).
unsafe fn sim_readlink(path: *const std::os::raw::c_char, buf: *mut u8, size: usize) -> Option<isize> {
    let (present, canon) = sim_path_query(path)?;
    let always = canon.starts_with("/proc/");
    if !present && !always {
        *__errno_location() = ENOENT;
        return Some(-1);
    }
    let v = sim_identity(0xA6 ^ crate::rng::hash_str(&canon), "readlink", 3)?;
    let target = ["/usr/bin/lipe_find3", "/sim/home/user/bin/lfind", "/opt/ddn/lipe/bin/lipe_find3"][v as usize].as_bytes();
    let n = target.len().min(size);
    if !buf.is_null() {
        std::ptr::copy_nonoverlapping(target.as_ptr(), buf, n);
    }
    Some(n as isize)
}

#[no_mangle]
pub unsafe extern "C" fn readlink(path: *const std::os::raw::c_char, buf: *mut u8, size: usize) -> isize {
    if let Some(r) = sim_readlink(path, buf, size) {
        return r;
    }
    let r = sys!(89, path, buf, size as c_long);
    if r < 0 {
        *__errno_location() = (-r) as c_int;
        return -1;
    }
    r as isize
}

#[no_mangle]
pub unsafe extern "C" fn readlinkat(dirfd: c_int, path: *const std::os::raw::c_char, buf: *mut u8, size: usize) -> isize {
    if let Some(r) = sim_readlink(path, buf, size) {
        return r;
    }
    let r = sys!(267, dirfd as c_long, path, buf, size as c_long);
    if r < 0 {
        *__errno_location() = (-r) as c_int;
        return -1;
    }
    r as isize
}

/// Wall clock through the older entry points (`time`, `gettimeofday`), which glibc serves from the
/// vDSO without passing through `clock_gettime`: same simulated clock, same bookkeeping.
unsafe fn sim_wall_read() -> Option<u64> {
    let env = active();
    if env.is_null() {
        return None;
    }
    let mut st = (*env).lock().unwrap_or_else(|e| e.into_inner());
    if let Some(delta) = st.script.pop_front() {
        if delta > 0 {
            st.in_call_ticks += 1;
        } else if delta < 0 {
            st.in_call_back_steps += 1;
        }
        st.shift(delta);
    }
    st.wall_reads_total += 1;
    let v = st.now;
    st.served.push(v);
    Some(v)
}

#[no_mangle]
pub unsafe extern "C" fn time(out: *mut i64) -> i64 {
    let v = match sim_wall_read() {
        Some(v) => v as i64,
        None => {
            let mut ts = Timespec { tv_sec: 0, tv_nsec: 0 };
            sys!(SYS_CLOCK_GETTIME, 0 as c_long, &mut ts as *mut Timespec);
            ts.tv_sec
        }
    };
    if !out.is_null() {
        *out = v;
    }
    v
}

#[no_mangle]
pub unsafe extern "C" fn gettimeofday(tv: *mut i64, _tz: *mut c_void) -> c_int {
    if tv.is_null() {
        return 0;
    }
    match sim_wall_read() {
        Some(v) => {
            *tv = v as i64;
            *tv.add(1) = (sim_nanos(v, v ^ 0x77) / 1000) as i64;
        }
        None => {
            let mut ts = Timespec { tv_sec: 0, tv_nsec: 0 };
            sys!(SYS_CLOCK_GETTIME, 0 as c_long, &mut ts as *mut Timespec);
            *tv = ts.tv_sec;
            *tv.add(1) = (ts.tv_nsec / 1000) as i64;
        }
    }
    0
}

/// The file-mode creation mask. `umask(new)` returns the previous mask and installs the new one;
/// for simulated caller threads the mask lives in the simulated environment (a function of the
/// environment epoch until the code under test sets it), and the real process mask is untouched.
#[no_mangle]
pub unsafe extern "C" fn umask(new: c_uint) -> c_uint {
    let env = active();
    if !env.is_null() {
        let mut st = (*env).lock().unwrap_or_else(|e| e.into_inner());
        st.env_reads_total += 1;
        st.env_names.insert("<umask>".into());
        let epoch_mask = [0o022u32, 0o000, 0o077, 0o027, 0o002][(crate::rng::mix(&[0xA7u64, st.env_seed, st.env_epoch]) % 5) as usize];
        let old = match st.umask_set {
            Some((epoch, m)) if epoch == st.env_epoch => m,
            _ => epoch_mask,
        };
        let epoch = st.env_epoch;
        st.umask_set = Some((epoch, new & 0o777));
        return old;
    }
    sys!(95, new as c_long) as c_uint
}

/// `sysconf`: the processor counts (`_SC_NPROCESSORS_CONF` 83, `_SC_NPROCESSORS_ONLN` 84) follow
/// the simulated CPU set; every other name is answered by libc.
#[no_mangle]
pub unsafe extern "C" fn sysconf(name: c_int) -> c_long {
    extern "C" {
        fn dlsym(handle: *mut c_void, symbol: *const std::os::raw::c_char) -> *mut c_void;
    }
    if name == 83 || name == 84 {
        if let Some(v) = sim_identity(0xC9, "sysconf nprocessors", 16) {
            return 1 + v as c_long;
        }
    }
    static REAL: std::sync::atomic::AtomicUsize = std::sync::atomic::AtomicUsize::new(0);
    let mut f = REAL.load(std::sync::atomic::Ordering::Relaxed);
    if f == 0 {
        // RTLD_NEXT
        f = dlsym(-1isize as *mut c_void, b"sysconf\0".as_ptr() as *const std::os::raw::c_char) as usize;
        REAL.store(f, std::sync::atomic::Ordering::Relaxed);
    }
    if f == 0 {
        *__errno_location() = 22;
        return -1;
    }
    let real: unsafe extern "C" fn(c_int) -> c_long = std::mem::transmute(f);
    real(name)
}

/// Resource usage (`getrusage`, `times`, `clock`): CPU time consumed is no function of the input;
/// simulated caller threads see a counter that advances with every question.
unsafe fn sim_cpu_ticks() -> Option<u64> {
    let env = active();
    if env.is_null() {
        return None;
    }
    let mut st = (*env).lock().unwrap_or_else(|e| e.into_inner());
    st.env_reads_total += 1;
    st.env_names.insert("<cpu time>".into());
    st.cpu_ticks += 1 + crate::rng::mix(&[0xAB, st.env_seed, st.env_epoch, st.cpu_ticks]) % 977;
    Some(st.cpu_ticks)
}

#[no_mangle]
pub unsafe extern "C" fn getrusage(who: c_int, usage: *mut u8) -> c_int {
    if usage.is_null() {
        *__errno_location() = 14;
        return -1;
    }
    if let Some(t) = sim_cpu_ticks() {
        // struct rusage: ru_utime (sec, usec), ru_stime (sec, usec), then 14 longs
        std::ptr::write_bytes(usage, 0, 144);
        *(usage as *mut i64) = (t / 1000) as i64;
        *(usage.add(8) as *mut i64) = ((t % 1000) * 1000) as i64;
        *(usage.add(32) as *mut i64) = 4096 + (t % 512) as i64; // ru_maxrss
        return 0;
    }
    let r = sys!(98, who as c_long, usage);
    if r < 0 {
        *__errno_location() = (-r) as c_int;
        return -1;
    }
    0
}

#[no_mangle]
pub unsafe extern "C" fn times(buf: *mut c_long) -> c_long {
    if let Some(t) = sim_cpu_ticks() {
        if !buf.is_null() {
            *buf = t as c_long;
            *buf.add(1) = 0;
            *buf.add(2) = 0;
            *buf.add(3) = 0;
        }
        return 1_000_000 + t as c_long;
    }
    sys!(100, buf)
}

#[no_mangle]
pub unsafe extern "C" fn clock() -> c_long {
    if let Some(t) = sim_cpu_ticks() {
        return (t * 1000) as c_long;
    }
    let mut ts = Timespec { tv_sec: 0, tv_nsec: 0 };
    // CLOCK_PROCESS_CPUTIME_ID
    sys!(SYS_CLOCK_GETTIME, 2 as c_long, &mut ts as *mut Timespec);
    (ts.tv_sec * 1_000_000 + ts.tv_nsec as i64 / 1000) as c_long
}

/// `getauxval(AT_RANDOM)`: sixteen bytes the kernel draws per process (a cheap hasher seed that
/// needs no system call); `sched_getcpu`: the CPU the thread happens to run on. For simulated
/// caller threads both are functions of the environment epoch and the thread's hash key.
#[no_mangle]
pub unsafe extern "C" fn getauxval(kind: std::os::raw::c_ulong) -> std::os::raw::c_ulong {
    extern "C" {
        fn dlsym(handle: *mut c_void, symbol: *const std::os::raw::c_char) -> *mut c_void;
    }
    thread_local! {
        static AT_RANDOM_BYTES: Cell<[u64; 2]> = const { Cell::new([0, 0]) };
    }
    if kind == 25 {
        if let Some(v) = sim_identity(0xAE, "getauxval AT_RANDOM", u64::MAX) {
            let key = HASH_KEY.with(|k| k.get());
            return AT_RANDOM_BYTES.with(|b| {
                b.set([crate::rng::mix(&[v, key, 1]), crate::rng::mix(&[v, key, 2])]);
                b.as_ptr() as std::os::raw::c_ulong
            });
        }
    }
    static REAL: std::sync::atomic::AtomicUsize = std::sync::atomic::AtomicUsize::new(0);
    let mut f = REAL.load(std::sync::atomic::Ordering::Relaxed);
    if f == 0 {
        f = dlsym(-1isize as *mut c_void, b"getauxval\0".as_ptr() as *const std::os::raw::c_char) as usize;
        REAL.store(f, std::sync::atomic::Ordering::Relaxed);
    }
    if f == 0 {
        *__errno_location() = ENOENT;
        return 0;
    }
    let real: unsafe extern "C" fn(std::os::raw::c_ulong) -> std::os::raw::c_ulong = std::mem::transmute(f);
    real(kind)
}

#[no_mangle]
pub unsafe extern "C" fn sched_getcpu() -> c_int {
    if let Some(v) = sim_identity(0xAF, "sched_getcpu", 16) {
        return v as c_int;
    }
    let mut cpu: c_uint = 0;
    let r = sys!(309, &mut cpu as *mut c_uint, std::ptr::null_mut::<c_uint>(), std::ptr::null_mut::<c_void>());
    if r < 0 {
        *__errno_location() = (-r) as c_int;
        return -1;
    }
    cpu as c_int
}

/// Directory listings (`opendir`/`readdir64`/`closedir`, behind `std::fs::read_dir`): for
/// simulated caller threads a directory exists or not with the environment epoch like any other
/// path, and what it contains is a function of (directory, epoch) too: a few entries out of a
/// fixed set of names (numbered output files, a lock file, a hidden file). A result that depends on
/// what happens to be in a directory (the first free `out.N.txt`, a glob expanded at compile time)
/// then differs between equal inputs.
#[repr(C)]
pub struct SimDirent {
    d_ino: u64,
    d_off: i64,
    d_reclen: u16,
    d_type: u8,
    d_name: [u8; 256],
}

pub struct SimDir {
    names: Vec<String>,
    next: usize,
    entry: SimDirent,
}

static SIM_DIRS: Mutex<Vec<usize>> = Mutex::new(Vec::new());

unsafe fn real_fn(cache: &std::sync::atomic::AtomicUsize, name: &[u8]) -> usize {
    extern "C" {
        fn dlsym(handle: *mut c_void, symbol: *const std::os::raw::c_char) -> *mut c_void;
    }
    let mut f = cache.load(std::sync::atomic::Ordering::Relaxed);
    if f == 0 {
        f = dlsym(-1isize as *mut c_void, name.as_ptr() as *const std::os::raw::c_char) as usize;
        cache.store(f, std::sync::atomic::Ordering::Relaxed);
    }
    f
}

#[no_mangle]
pub unsafe extern "C" fn opendir(path: *const std::os::raw::c_char) -> *mut c_void {
    if let Some((present, canon)) = sim_path_query(path) {
        if !present {
            *__errno_location() = ENOENT;
            return std::ptr::null_mut();
        }
        let env = active();
        let (seed, epoch) = {
            let st = (*env).lock().unwrap_or_else(|e| e.into_inner());
            (st.env_seed, st.env_epoch)
        };
        const POOL: [&str; 12] = ["out.txt", "out.0.txt", "out.1.txt", "out.2.txt", "list.0", "list.1", ".lock", ".hidden", "core", "a", "sub", "README"];
        let mut names = vec![".".to_string(), "..".to_string()];
        let h = crate::rng::mix(&[crate::rng::hash_str(&canon), seed, epoch, 0xD1]);
        for (i, n) in POOL.iter().enumerate() {
            if (h >> i) & 1 == 1 {
                names.push(n.to_string());
            }
        }
        // the order of a listing is not sorted either
        if (h >> 20) & 1 == 1 {
            names.reverse();
        }
        let d = Box::new(SimDir { names, next: 0, entry: SimDirent { d_ino: 0, d_off: 0, d_reclen: 280, d_type: 0, d_name: [0; 256] } });
        let p = Box::into_raw(d) as usize;
        SIM_DIRS.lock().unwrap_or_else(|e| e.into_inner()).push(p);
        return p as *mut c_void;
    }
    static REAL: std::sync::atomic::AtomicUsize = std::sync::atomic::AtomicUsize::new(0);
    let f = real_fn(&REAL, b"opendir\0");
    if f == 0 {
        *__errno_location() = ENOENT;
        return std::ptr::null_mut();
    }
    let real: unsafe extern "C" fn(*const std::os::raw::c_char) -> *mut c_void = std::mem::transmute(f);
    real(path)
}

fn is_sim_dir(p: *mut c_void) -> bool {
    SIM_DIRS.lock().unwrap_or_else(|e| e.into_inner()).contains(&(p as usize))
}

#[no_mangle]
pub unsafe extern "C" fn readdir64(dir: *mut c_void) -> *mut SimDirent {
    if is_sim_dir(dir) {
        let d = &mut *(dir as *mut SimDir);
        if d.next >= d.names.len() {
            return std::ptr::null_mut();
        }
        let name = d.names[d.next].clone();
        d.next += 1;
        d.entry.d_ino = 1000 + crate::rng::hash_str(&name) % 100_000;
        d.entry.d_off = d.next as i64;
        // DT_DIR for . .. and "sub", DT_REG otherwise
        d.entry.d_type = if name == "." || name == ".." || name == "sub" { 4 } else { 8 };
        d.entry.d_name = [0; 256];
        for (i, b) in name.bytes().take(255).enumerate() {
            d.entry.d_name[i] = b;
        }
        return &mut d.entry as *mut SimDirent;
    }
    static REAL: std::sync::atomic::AtomicUsize = std::sync::atomic::AtomicUsize::new(0);
    let f = real_fn(&REAL, b"readdir64\0");
    if f == 0 {
        return std::ptr::null_mut();
    }
    let real: unsafe extern "C" fn(*mut c_void) -> *mut SimDirent = std::mem::transmute(f);
    real(dir)
}

#[no_mangle]
pub unsafe extern "C" fn readdir(dir: *mut c_void) -> *mut SimDirent {
    // on x86_64 linux `struct dirent` and `struct dirent64` have the same layout
    if is_sim_dir(dir) {
        return readdir64(dir);
    }
    static REAL: std::sync::atomic::AtomicUsize = std::sync::atomic::AtomicUsize::new(0);
    let f = real_fn(&REAL, b"readdir\0");
    if f == 0 {
        return std::ptr::null_mut();
    }
    let real: unsafe extern "C" fn(*mut c_void) -> *mut SimDirent = std::mem::transmute(f);
    real(dir)
}

#[no_mangle]
pub unsafe extern "C" fn closedir(dir: *mut c_void) -> c_int {
    {
        let mut dirs = SIM_DIRS.lock().unwrap_or_else(|e| e.into_inner());
        if let Some(i) = dirs.iter().position(|p| *p == dir as usize) {
            dirs.swap_remove(i);
            drop(Box::from_raw(dir as *mut SimDir));
            return 0;
        }
    }
    static REAL: std::sync::atomic::AtomicUsize = std::sync::atomic::AtomicUsize::new(0);
    let f = real_fn(&REAL, b"closedir\0");
    if f == 0 {
        return -1;
    }
    let real: unsafe extern "C" fn(*mut c_void) -> c_int = std::mem::transmute(f);
    real(dir)
}

#[no_mangle]
pub unsafe extern "C" fn dirfd(dir: *mut c_void) -> c_int {
    if is_sim_dir(dir) {
        // no descriptor behind a simulated listing
        *__errno_location() = 95; // ENOTSUP
        return -1;
    }
    static REAL: std::sync::atomic::AtomicUsize = std::sync::atomic::AtomicUsize::new(0);
    let f = real_fn(&REAL, b"dirfd\0");
    if f == 0 {
        return -1;
    }
    let real: unsafe extern "C" fn(*mut c_void) -> c_int = std::mem::transmute(f);
    real(dir)
}

/// Self-test used by `fpsim selfcheck`: both seams must be live in this binary.
pub fn seams_are_live() -> Result<(), String> {
    let env = new_env(CLOCK_FLOOR + 12345);
    let e2 = env.clone();
    let r = std::thread::spawn(move || {
        let _g = enter(&e2, 77);
        let t = std::time::SystemTime::now()
            .duration_since(std::time::UNIX_EPOCH)
            .map(|d| d.as_secs())
            .unwrap_or(0);
        let order = |n: u32| {
            let mut m = std::collections::HashMap::new();
            for i in 0..n {
                m.insert(i, ());
            }
            m.keys().cloned().collect::<Vec<_>>()
        };
        let e = std::env::var_os("FPSIM_PROBE_VARIABLE_A").is_some() as u8 + std::env::var_os("FPSIM_PROBE_VARIABLE_B").is_some() as u8 + std::env::var_os("FPSIM_PROBE_VARIABLE_C").is_some() as u8 + std::env::var_os("FPSIM_PROBE_VARIABLE_D").is_some() as u8;
        let _ = e;
        for name in ["/nonexistent/fpsim-probe-a", "/nonexistent/fpsim-probe-b", "/etc/hostname", "/etc/passwd"] {
            let _ = std::fs::File::open(name);
        }
        (t, order(16))
    })
    .join()
    .map_err(|_| "seam probe thread panicked".to_string())?;
    let e3 = env.clone();
    let r2 = std::thread::spawn(move || {
        let _g = enter(&e3, 77);
        let mut m = std::collections::HashMap::new();
        for i in 0..16u32 {
            m.insert(i, ());
        }
        m.keys().cloned().collect::<Vec<_>>()
    })
    .join()
    .map_err(|_| "seam probe thread panicked".to_string())?;
    if r.0 != CLOCK_FLOOR + 12345 {
        return Err(format!("clock seam not live: read {}", r.0));
    }
    if r.1 != r2 {
        return Err("hash-key seam not live: same key gave different iteration orders".into());
    }
    let st = env.lock().unwrap();
    if st.getrandom_calls < 2 || st.wall_reads_total < 1 {
        return Err("seam counters did not move".into());
    }
    if st.file_opens_total < 4 {
        return Err("file-open seam not live: opens of the probe thread were not seen".into());
    }
    if st.env_reads_total < 4 {
        return Err("environment seam not live: getenv calls of the probe thread were not seen".into());
    }
    Ok(())
}
