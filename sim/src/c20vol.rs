//! C20, volume pass: one compiled expression renders more than 4 GiB of program text for distinct
//! (long) device paths, in one fresh process, checked on the fly. State inside a compiled expression
//! that is bounded or indexed in BYTES (an arena of rendered text with 32-bit offsets, a buffer
//! recycled when full) only goes wrong past such a volume; the history pass, which keeps every
//! rendering for its oracle, cannot afford it. Here nothing is kept but a 64-bit digest per path:
//! each rendering is compared at once with `prefix + path + suffix`, where prefix and suffix are what
//! two renderings for short paths have in common (the property itself: only the device string varies,
//! and for paths without `"` and `\` it decodes to itself).

use crate::coord;
use crate::rng::mix;
use serde_json::{json, Map, Value};
use std::path::Path;

const EXPRS: [&str; 4] = [
    "-name '*.log' -size +1k -print",
    "-type f -fprint out.txt -o -name 'x*' -fprintf b.txt '%p %s\\n'",
    "-mtime -3 -print0",
    "-iname '*.TMP' -uid 1000 -fprint0 z.bin -o -path 'a/*' -print",
];

fn long_path(i: u64, unit: usize) -> String {
    let mut p = format!("/dev/mapper/vol{i:06}-");
    let fill = b"0123456789abcdef";
    let mut k = (i as usize) % 16;
    while p.len() < unit {
        p.push(fill[k % 16] as char);
        k += 1;
    }
    p
}

fn digest(s: &str) -> (usize, u64) {
    // length plus a sampled 64-bit digest (every 61st byte and the last 64): cheap on 1-MiB texts
    let b = s.as_bytes();
    let mut words: Vec<u64> = b.iter().step_by(61).map(|x| *x as u64).collect();
    words.extend(b[b.len().saturating_sub(64)..].iter().map(|x| *x as u64));
    (b.len(), mix(&words))
}

struct Fail {
    class: &'static str,
    detail: String,
}

fn run(seed: u64, total_mib: u64, unit_kib: u64) -> Result<(u64, u64), Fail> {
    use lipe_find_parser::{compile, parse};
    let text = EXPRS[(seed % EXPRS.len() as u64) as usize];
    let fail = |class: &'static str, detail: String| Fail { class, detail };
    let (opts, tree) = parse(text).map_err(|e| fail("harness", format!("fixed expression does not parse: {e:?}")))?;
    let c = compile(&tree, &opts).map_err(|e| fail("harness", format!("fixed expression does not compile: {e}")))?;
    let table0 = format!("{:?}", c.io_map().map(|m| m.iter().map(|(k, t)| (*k, format!("{t:?}"))).collect::<std::collections::BTreeMap<_, _>>()));
    let (ra, rb) = (c.scheme("A"), c.scheme("BB"));
    let pre = ra.bytes().zip(rb.bytes()).take_while(|(x, y)| x == y).count();
    let suf = ra.bytes().rev().zip(rb.bytes().rev()).take_while(|(x, y)| x == y).count();
    if pre + 1 + suf != ra.len() || pre + 2 + suf != rb.len() || !ra[..pre].ends_with('"') || !ra[ra.len() - suf..].starts_with('"') {
        return Err(fail("renderings-differ-beyond-device-path", "renderings for the paths \"A\" and \"BB\" differ in more than the device string".into()));
    }
    let (prefix, suffix) = (ra[..pre].to_string(), ra[ra.len() - suf..].to_string());
    let check = |what: &str, p: &str, r: &str| -> Result<(), Fail> {
        if r.len() == prefix.len() + p.len() + suffix.len() && r.starts_with(&prefix) && r.ends_with(&suffix) && &r[prefix.len()..prefix.len() + p.len()] == p {
            return Ok(());
        }
        let shown: String = p.chars().take(40).collect();
        let class = if r.starts_with(&prefix) && r.ends_with(&suffix) { "device-path-decodes-differently" } else { "renderings-differ-beyond-device-path" };
        Err(fail(
            class,
            format!(
                "{what} for {shown:?}{} ({} bytes): {} bytes come back instead of {}; they begin {:?}",
                if p.len() > 40 { "..." } else { "" },
                p.len(),
                r.len(),
                prefix.len() + p.len() + suffix.len(),
                r.chars().skip(prefix.len().min(r.len())).take(48).collect::<String>()
            ),
        ))
    };
    let unit = (unit_kib as usize) << 10;
    let n = ((total_mib << 20) as usize).div_ceil(unit) as u64;
    let (mut bytes, mut renders) = (0u64, 0u64);
    let mut first: Vec<(usize, u64)> = Vec::with_capacity(n as usize);
    let mut short_seen: Vec<String> = vec![];
    let checkpoint = (n / 8).max(1);
    for i in 0..n {
        let p = long_path(i, unit);
        let r = std::panic::catch_unwind(std::panic::AssertUnwindSafe(|| c.scheme(&p))).map_err(|_| fail("render-panicked", format!("rendering number {i} ({} bytes of path) panicked after {bytes} bytes rendered", p.len())))?;
        renders += 1;
        bytes += r.len() as u64;
        check(&format!("rendering number {i}, after {bytes} bytes rendered,"), &p, &r)?;
        first.push(digest(&r));
        if i % checkpoint == checkpoint - 1 || i + 1 == n {
            // devices first seen now, twice each; devices seen at earlier checkpoints again; two of
            // the long paths again
            for k in 0..4 {
                let s = format!("/dev/mapper/mdt{:04}", short_seen.len() + k);
                for round in 0..2 {
                    let r = std::panic::catch_unwind(std::panic::AssertUnwindSafe(|| c.scheme(&s))).map_err(|_| fail("render-panicked", format!("rendering for {s:?} panicked after {bytes} bytes rendered")))?;
                    renders += 1;
                    check(&format!("rendering {} after {bytes} bytes rendered,", if round == 0 { "the first time" } else { "a second time" }), &s, &r)?;
                }
                short_seen.push(s);
            }
            for s in short_seen.iter().step_by(3) {
                let r = std::panic::catch_unwind(std::panic::AssertUnwindSafe(|| c.scheme(s))).map_err(|_| fail("render-panicked", format!("rendering for {s:?} panicked after {bytes} bytes rendered")))?;
                renders += 1;
                check(&format!("rendering again after {bytes} bytes rendered,"), s, &r)?;
            }
            for j in [i, mix(&[seed, i]) % (i + 1)] {
                let p = long_path(j, unit);
                let r = std::panic::catch_unwind(std::panic::AssertUnwindSafe(|| c.scheme(&p))).map_err(|_| fail("render-panicked", format!("second rendering of long path {j} panicked after {bytes} bytes rendered")))?;
                renders += 1;
                if digest(&r) != first[j as usize] {
                    return Err(fail("render-not-repeatable", format!("long path number {j} ({} bytes) rendered again after {bytes} bytes: the program differs from its first rendering", p.len())));
                }
            }
            let table = format!("{:?}", c.io_map().map(|m| m.iter().map(|(k, t)| (*k, format!("{t:?}"))).collect::<std::collections::BTreeMap<_, _>>()));
            if table != table0 {
                return Err(fail("table-changed", format!("destination table after {bytes} bytes rendered differs from the one observed first")));
            }
        }
    }
    Ok((renders, bytes))
}

/// `fpsim volume <seed> <total MiB> <unit KiB>`: one line of JSON on stdout.
pub fn child(seed: u64, total_mib: u64, unit_kib: u64) -> i32 {
    match run(seed, total_mib, unit_kib) {
        Ok((renders, bytes)) => println!("{}", json!({"ok": true, "renders": renders, "bytes": bytes})),
        Err(f) if f.class == "harness" => {
            eprintln!("harness error: {}", f.detail);
            return 2;
        }
        Err(f) => println!("{}", json!({"ok": false, "class": f.class, "detail": f.detail})),
    }
    0
}

fn run_child(seed: u64, total_mib: u64, unit_kib: u64) -> Result<Value, String> {
    let exe = std::env::current_exe().map_err(|e| e.to_string())?;
    let out = std::process::Command::new(exe)
        .args(["volume", &seed.to_string(), &total_mib.to_string(), &unit_kib.to_string()])
        .output()
        .map_err(|e| format!("cannot start the volume child: {e}"))?;
    let text = String::from_utf8_lossy(&out.stdout);
    match text.lines().rev().find_map(|l| serde_json::from_str::<Value>(l).ok()) {
        Some(v) => Ok(v),
        // killed (out of memory?) or no verdict: not a verdict about the library
        None => Err(format!("the volume child gave no verdict (exit {:?}): {}", out.status.code(), String::from_utf8_lossy(&out.stderr).chars().take(300).collect::<String>())),
    }
}

pub struct PassResult {
    pub exit: i32,
    pub violations: u64,
    pub evidence: Map<String, Value>,
}

pub fn pass(seed: u64, quick: bool) -> Result<PassResult, String> {
    let mut ev = Map::new();
    if std::env::var_os("VERIF_SKIP_VOLUME_PASS").is_some() {
        ev.insert("status".into(), json!("skipped: VERIF_SKIP_VOLUME_PASS is set"));
        return Ok(PassResult { exit: 0, violations: 0, evidence: ev });
    }
    let timer = coord::Timer::start();
    // just past 2^32 bytes; the thorough tier also goes past 2^33 with larger units
    let plans: Vec<(u64, u64)> = if quick { vec![(4200, 1024)] } else { vec![(4200, 1024), (4200, 64), (8400, 4096)] };
    let (mut renders, mut bytes) = (0u64, 0u64);
    for (total, unit) in &plans {
        let v = match run_child(seed, *total, *unit) {
            Ok(v) => v,
            Err(e) => {
                // no verdict (for instance not enough memory for a library that keeps everything): say so
                ev.insert("status".into(), json!(format!("skipped: {e}")));
                println!("C20 volume pass: skipped ({e})");
                return Ok(PassResult { exit: 0, violations: 0, evidence: ev });
            }
        };
        if v["ok"].as_bool() == Some(true) {
            renders += v["renders"].as_u64().unwrap_or(0);
            bytes += v["bytes"].as_u64().unwrap_or(0);
            continue;
        }
        // the smallest volume among the halvings that still fails
        let (mut t, mut failing) = (*total, v.clone());
        while t >= 2 {
            match run_child(seed, t / 2, *unit) {
                Ok(v2) if v2["ok"].as_bool() == Some(false) && v2["class"] == v["class"] => {
                    t /= 2;
                    failing = v2;
                }
                _ => break,
            }
        }
        let class = failing["class"].as_str().unwrap_or("render-not-repeatable").to_string();
        let detail = failing["detail"].as_str().unwrap_or("").to_string();
        let path = coord::verif_root().join("replays").join(format!("C20-volume-{seed}-{t}-{unit}.json"));
        coord::write_json(&path, &json!({"property": "C20", "kind": "volume", "class": class, "detail": detail, "seed": seed, "total_mib": t, "unit_kib": unit, "expression": EXPRS[(seed % EXPRS.len() as u64) as usize]}))?;
        println!("violation class={class} detail: one compiled expression rendering {t} MiB of distinct device paths of {unit} KiB: {detail}");
        println!("VIOLATION property=C20 replay={}", path.display());
        ev.insert("replay".into(), json!(path.display().to_string()));
        ev.insert("status".into(), json!("violation"));
        return Ok(PassResult { exit: 1, violations: 1, evidence: ev });
    }
    ev.insert("status".into(), json!("ran"));
    ev.insert("plans_total_mib_unit_kib".into(), json!(plans));
    ev.insert("renders".into(), json!(renders));
    ev.insert("bytes_rendered".into(), json!(bytes));
    ev.insert("wall_s".into(), json!((timer.secs() * 10.0).round() / 10.0));
    ev.insert(
        "what".into(),
        json!("one compiled expression, one fresh process per plan: distinct long device paths until more than 2^32 (thorough: 2^33) bytes of program text have been rendered, each rendering compared at once with prefix + path + suffix; at eight checkpoints new short devices twice each, earlier devices and two long paths again, and the destination table"),
    );
    println!("C20 volume pass: {} plans, {renders} renders, {:.1} GiB rendered through one compiled expression each, {:.1}s", plans.len(), bytes as f64 / (1u64 << 30) as f64, timer.secs());
    Ok(PassResult { exit: 0, violations: 0, evidence: ev })
}

pub fn replay_file(path: &Path, expect: Option<&str>) -> i32 {
    let doc: Value = match std::fs::read_to_string(path).map_err(|e| e.to_string()).and_then(|t| serde_json::from_str(&t).map_err(|e| e.to_string())) {
        Ok(v) => v,
        Err(e) => {
            eprintln!("harness error: {}: {e}", path.display());
            return 2;
        }
    };
    let (seed, total, unit) = (doc["seed"].as_u64().unwrap_or(0), doc["total_mib"].as_u64().unwrap_or(1), doc["unit_kib"].as_u64().unwrap_or(1));
    match run_child(seed, total, unit) {
        Err(e) => {
            eprintln!("harness error: {e}");
            2
        }
        Ok(v) if v["ok"].as_bool() == Some(true) => {
            if expect.is_none() {
                println!("replay {}: no violation", path.display());
            }
            0
        }
        Ok(v) => {
            let class = v["class"].as_str().unwrap_or("");
            if let Some(e) = expect {
                return if e == class { 1 } else { 0 };
            }
            println!("replay {}: class={class} {}", path.display(), v["detail"].as_str().unwrap_or(""));
            println!("VIOLATION property=C20 replay={}", path.display());
            1
        }
    }
}
