//! fpsim — deterministic simulation of find-parser's environment (clock, hash keys, caller
//! threads, processes, call histories) and of the scanner threads that execute its output.

mod astwalk;
mod c15;
mod c16;
mod c20;
mod c20miri;
mod c20vol;
#[cfg(feature = "shuttled")]
mod c20conc;
mod coord;
mod eval;
mod gen;
mod hist;
mod histcheck;
mod rng;
mod sched;
mod seam;
mod sexp;

use histcheck::{HistProp, Tier};
use std::path::Path;

struct CountingLogger;
static LOGGED: std::sync::atomic::AtomicU64 = std::sync::atomic::AtomicU64::new(0);
impl log::Log for CountingLogger {
    fn enabled(&self, _: &log::Metadata) -> bool {
        true
    }
    fn log(&self, record: &log::Record) {
        // force evaluation of the arguments, as a real backend would
        let n = format!("{}", record.args()).len() as u64;
        LOGGED.fetch_add(1 + (n & 0), std::sync::atomic::Ordering::Relaxed);
    }
    fn flush(&self) {}
}
static LOGGER: CountingLogger = CountingLogger;

fn hist_prop(id: &str) -> Option<&'static HistProp> {
    match id {
        "C15" => Some(&c15::PROP),
        "C20" => Some(&c20::PROP),
        _ => None,
    }
}

fn usage() -> i32 {
    eprintln!("usage: fpsim check <C15|C16|C20> <quick|thorough> | block <prop> <seed> <first> <count> <tier> | replay <file> [--expect <class>] | selfcheck");
    2
}

/// Determinism proof of the simulator itself: the same run indices executed in fresh processes
/// under three block partitions and worker counts, twice each, must give identical per-run
/// event-log digests.
fn selfcheck(runs: u64) -> i32 {
    if let Err(e) = seam::seams_are_live() {
        eprintln!("harness error: {e}");
        return 2;
    }
    let seed = coord::seed_from_env();
    let mut bad = 0;
    {
        // lexer spans: every token's span must re-lex to exactly that token
        let sample = "(let* ((p \"a\\\"b;c\\n\") (t #\\x1e)) ; comment (\n  (lipe-scan \"/dev/é\" 12 #o17 #t 'x %lf3:print:2))";
        match sexp::lex_spans(sample) {
            Ok(spans) => {
                let ok = spans.iter().all(|(t, a, b)| matches!(sexp::lex(&sample[*a..*b]), Ok(v) if v.len() == 1 && v[0] == *t));
                println!("selfcheck: lexer spans {} ({} tokens)", if ok { "ok" } else { "FAIL" }, spans.len());
                if !ok {
                    bad += 1;
                }
            }
            Err(e) => {
                println!("selfcheck: lexer FAIL {e}");
                bad += 1;
            }
        }
    }
    {
        // the facts the oracles read off a syntax tree, computed from the tree and from its Debug text
        // (the fallback used when the walk over the tree no longer builds), must agree
        let (mut trees, mut differ) = (0u64, 0u64);
        for index in 0..1500u64 {
            for prop in [&c15::PROP, &c20::PROP] {
                let mut rng = rng::Rng::new(coord::run_seed(seed, prop.id, index));
                let sc = (prop.scenario)(&mut rng, Tier::Quick);
                for text in sc.subjects.iter().take(3) {
                    if let Ok((_, tree)) = std::panic::catch_unwind(|| lipe_find_parser::parse(text)).unwrap_or_else(|_| lipe_find_parser::parse("-false")) {
                        trees += 1;
                        let a = astwalk::tree_facts3(&tree);
                        let b = astwalk::facts_from_dump(&format!("{tree:?}"));
                        if a != b {
                            differ += 1;
                            if differ <= 3 {
                                println!("  tree facts differ for {text:?}: walk {a:?}, dump {b:?}");
                            }
                        }
                    }
                }
            }
        }
        println!("selfcheck: tree facts from the walk{} and from the Debug text agree on {} of {trees} parsed inputs", if astwalk::ENABLED { "" } else { " (not built: both from the text)" }, trees - differ);
        if differ > 0 {
            bad += 1;
        }
    }
    println!("selfcheck: stub runtime and oracle self-tests (hand-written programs)");
    for (name, ok, detail) in c16::selftests() {
        println!("  {} {name}: {detail}", if ok { "ok  " } else { "FAIL" });
        if !ok {
            bad += 1;
        }
    }
    println!("selfcheck: VERIF_SEED={seed}, {runs} run indices per property, 3 partitions x 2 repetitions");
    #[cfg(feature = "shuttled")]
    let engines = ["C15", "C20", "C16", c20conc::ENGINE, c20conc::ENGINE_C15];
    #[cfg(not(feature = "shuttled"))]
    let engines = ["C15", "C20", "C16"];
    for prop in engines {
        let mut reference: Option<std::collections::BTreeMap<u64, u64>> = None;
        let mut executions = 0;
        let bad_before = bad;
        for (block, workers) in [(runs, 1usize), ((runs / 8).max(1), 4), (50, 16)] {
            for _rep in 0..2 {
                let plan = coord::Plan { prop, tier: "quick".into(), seed, runs, block, workers };
                match coord::run_plan(&plan) {
                    Err(e) => {
                        eprintln!("harness error: {e}");
                        return 2;
                    }
                    Ok(red) => {
                        executions += 1;
                        match &reference {
                            None => reference = Some(red.digests),
                            Some(r) => {
                                for (i, d) in &red.digests {
                                    if r.get(i) != Some(d) {
                                        eprintln!("{prop}: run {i} differs (block {block}, workers {workers})");
                                        bad += 1;
                                    }
                                }
                            }
                        }
                    }
                }
            }
        }
        println!("{prop}: {} run indices x {executions} executions in fresh processes: {}", reference.map(|r| r.len()).unwrap_or(0), if bad == bad_before { "identical digests" } else { "DIFFERENCES" });
    }
    if bad == 0 {
        0
    } else {
        2
    }
}

fn real_main() -> i32 {
    let args: Vec<String> = std::env::args().skip(1).collect();
    let _ = log::set_logger(&LOGGER);
    log::set_max_level(log::LevelFilter::Off);
    // panics inside the code under test are caught and classified; keep stderr quiet
    // (VERIF_PANIC_TRACE=1 keeps the default hook: for debugging the harness itself)
    if std::env::var_os("VERIF_PANIC_TRACE").is_none() {
        std::panic::set_hook(Box::new(|_| {}));
    }
    gen::load_dictionary();
    match args.first().map(|s| s.as_str()) {
        Some("check") if args.len() >= 3 => {
            let tier = Tier::parse(&args[2]);
            if let Some(p) = hist_prop(&args[1]) {
                if p.id == "C20" {
                    let post = |seed: u64, tier: Tier| -> Result<histcheck::PostPass, String> {
                        #[cfg(feature = "shuttled")]
                        let (mut evidence, mut exit, mut violations) = {
                            let r = c20conc::pass(seed, tier)?;
                            (r.evidence, r.exit, r.violations)
                        };
                        #[cfg(not(feature = "shuttled"))]
                        let (mut evidence, mut exit, mut violations) = {
                            println!("note: concurrent pass of C20 skipped (the rewritten copy of the library did not build)");
                            let mut m = serde_json::Map::new();
                            m.insert("status".into(), serde_json::json!("skipped: the rewritten copy of the library did not build"));
                            (m, 0, 0u64)
                        };
                        if exit == 0 && std::env::var("VERIF_PROFILE_PASS").is_err() {
                            let m = c20miri::pass(tier == Tier::Quick)?;
                            evidence.insert("miri_pass".into(), serde_json::Value::Object(m.evidence));
                            exit = m.exit;
                            violations += m.violations;
                        }
                        if exit == 0 && std::env::var("VERIF_PROFILE_PASS").is_err() {
                            // more than 4 GiB rendered through one compiled expression
                            let m = c20vol::pass(seed, tier == Tier::Quick)?;
                            evidence.insert("volume_pass".into(), serde_json::Value::Object(m.evidence));
                            exit = m.exit;
                            violations += m.violations;
                        }
                        Ok(histcheck::PostPass { exit, violations, name: "concurrent_pass", evidence })
                    };
                    return histcheck::check(p, tier, Some(&post));
                }
                #[cfg(feature = "shuttled")]
                if p.id == "C15" && std::env::var("VERIF_PROFILE_PASS").is_err() {
                    // overlapping compilations (the history pass releases one call at a time)
                    let post = |seed: u64, tier: Tier| -> Result<histcheck::PostPass, String> {
                        let r = c20conc::pass_for("C15", seed, tier)?;
                        let (mut evidence, mut exit, mut violations) = (r.evidence, r.exit, r.violations);
                        if exit == 0 {
                            // shared state that parse/compile reach without going through std::sync
                            let m = c20miri::pass_for("C15", tier == Tier::Quick)?;
                            evidence.insert("miri_pass".into(), serde_json::Value::Object(m.evidence));
                            exit = m.exit;
                            violations += m.violations;
                        }
                        Ok(histcheck::PostPass { exit, violations, name: "concurrent_pass", evidence })
                    };
                    return histcheck::check(p, tier, Some(&post));
                }
                return histcheck::check(p, tier, None);
            }
            if args[1] == "C16" {
                return c16::check(tier);
            }
            usage()
        }
        Some("block") if args.len() >= 6 => {
            let parse = |s: &String| s.parse::<u64>().ok();
            let (Some(seed), Some(first), Some(count)) = (parse(&args[2]), parse(&args[3]), parse(&args[4])) else {
                return usage();
            };
            let tier = Tier::parse(&args[5]);
            if let Some(p) = hist_prop(&args[1]) {
                let br = histcheck::run_block(p, seed, first, count, tier);
                println!("{}", br.to_json());
                return 0;
            }
            #[cfg(feature = "shuttled")]
            if args[1] == c20conc::ENGINE || args[1] == c20conc::ENGINE_C15 {
                return match c20conc::run_block(&args[1], seed, first, count, tier) {
                    Ok(br) => {
                        println!("{}", br.to_json());
                        0
                    }
                    Err(e) => {
                        eprintln!("harness error: {e}");
                        2
                    }
                };
            }
            if args[1] == "C16" {
                return match c16::run_block(seed, first, count, tier) {
                    Ok(br) => {
                        println!("{}", br.to_json());
                        0
                    }
                    Err(e) => {
                        eprintln!("harness error: {e}");
                        2
                    }
                };
            }
            usage()
        }
        Some("replay") if args.len() >= 2 => {
            let path = Path::new(&args[1]);
            let expect = args.iter().position(|a| a == "--expect").and_then(|i| args.get(i + 1)).map(|s| s.as_str());
            let text = match std::fs::read_to_string(path) {
                Ok(t) => t,
                Err(e) => {
                    eprintln!("harness error: cannot read {}: {e}", path.display());
                    return 2;
                }
            };
            let parsed = serde_json::from_str::<serde_json::Value>(&text).ok();
            let prop = parsed.as_ref().and_then(|v| v["property"].as_str().map(String::from)).unwrap_or_default();
            if parsed.as_ref().map_or(false, |v| v["kind"].as_str() == Some("volume")) {
                return c20vol::replay_file(path, expect);
            }
            if parsed.as_ref().map_or(false, |v| v["kind"].as_str() == Some("miri")) {
                return c20miri::replay_file(path, expect);
            }
            if parsed.as_ref().map_or(false, |v| v["kind"].as_str() == Some("concurrent")) {
                #[cfg(feature = "shuttled")]
                return c20conc::replay_file(path, expect);
                #[cfg(not(feature = "shuttled"))]
                {
                    eprintln!("harness error: this replay file needs the concurrent pass, which is not built (the rewritten copy of the library does not compile)");
                    return 2;
                }
            }
            if let Some(p) = hist_prop(&prop) {
                return histcheck::replay_file(p, path, expect);
            }
            if prop == "C16" {
                return c16::replay_file(path, expect);
            }
            eprintln!("harness error: replay file names unknown property {prop:?}");
            2
        }
        Some("volume") if args.len() >= 4 => {
            let n = |i: usize| args[i].parse::<u64>().unwrap_or(1);
            c20vol::child(n(1), n(2), n(3))
        }
        Some("selfcheck") => selfcheck(args.get(1).and_then(|s| s.parse().ok()).unwrap_or(2000)),
        Some("outputs") if args.len() >= 3 => histcheck::outputs_cmd(Path::new(&args[1]), args[2].parse().unwrap_or(0)),
        Some("show") if args.len() >= 4 => {
            let seed: u64 = args[2].parse().unwrap_or(1);
            let index: u64 = args[3].parse().unwrap_or(0);
            c16::show_run(seed, index);
            0
        }
        _ => usage(),
    }
}

fn main() {
    let code = real_main();
    std::process::exit(code);
}
