//! Call histories against the real library, executed on simulated caller threads.
//!
//! A *scenario* is an explicit, self-contained description of one simulated run: subject
//! texts, device paths, start of the clock, hash seed and the list of operations with their
//! clock scripts. Executing a scenario is a pure function of the scenario and the code under
//! test — that is what makes a replay file exact.
//!
//! Caller threads are real OS threads (fresh thread-locals, fresh `RandomState` keys served by
//! the getrandom seam), parked on a channel and released one operation at a time: the simulator,
//! not the OS, decides who runs.

use crate::rng::mix;
use crate::seam::{self, Env};
use lipe_find_parser::compile;

/// `parse` as the caller threads call it: from a stack depth that varies from call to call.
macro_rules! parse {
    ($t:expr) => {{
        let mut f = || lipe_find_parser::parse($t);
        at_depth(next_call_depth(), &mut f)
    }};
}
use serde_json::{json, Value};
use std::collections::BTreeMap;
use std::panic::{catch_unwind, AssertUnwindSafe};
use std::sync::mpsc::{channel, Receiver, Sender};
use std::sync::Arc;

pub const FIXED_PATH: &str = "/dev/sim0";
pub const MAX_THREADS: usize = 4;

#[derive(Clone, Debug, PartialEq)]
pub enum Op {
    /// parse subject, observe the Debug dump of (options, tree) or the error text
    Parse { subj: usize },
    /// parse + compile subject into `slot`; `script` = clock deltas before successive reads;
    /// `twice` compiles the same tree a second time (continuing the script) into the same slot
    Compile { subj: usize, slot: usize, script: Vec<i64>, twice: bool },
    /// parse + compile subject into `slot` and observe nothing (no render, no table query): what
    /// the caller does first with the value is up to the following operations
    CompileQuiet { subj: usize, slot: usize },
    Render { slot: usize, path: usize },
    IoMap { slot: usize },
    /// parse+compile+render other expressions; results ignored
    Unrelated { texts: Vec<String>, script: Vec<i64> },
    ClockShift { delta: i64 },
    SwitchThread { t: usize },
    /// retire all caller threads; later operations run on fresh OS threads with new hash keys
    NewEpoch,
    /// 0 = Off, 1 = Error, 2 = Warn, 3 = Debug, 4 = Trace
    LoggerLevel { level: u8 },
    /// the process environment changes: every variable the library may ask for gets a new answer
    EnvChange,
    /// parse subjects `a` and `b` (may be the same), compare the trees with `==`, and compile both
    /// under a clock that stands still: results the library calls equal must compile to the same
    /// program and table
    Compare { a: usize, b: usize },
}

impl Op {
    pub fn kind(&self) -> &'static str {
        match self {
            Op::Parse { .. } => "Parse",
            Op::Compile { twice: false, .. } => "Compile",
            Op::Compile { twice: true, .. } => "Compile2",
            Op::CompileQuiet { .. } => "CompileQuiet",
            Op::Render { .. } => "Render",
            Op::IoMap { .. } => "IoMap",
            Op::Unrelated { .. } => "Unrelated",
            Op::ClockShift { .. } => "ClockShift",
            Op::SwitchThread { .. } => "SwitchThread",
            Op::NewEpoch => "NewEpoch",
            Op::LoggerLevel { .. } => "LoggerLevel",
            Op::EnvChange => "EnvChange",
            Op::Compare { .. } => "Compare",
        }
    }

    pub fn to_json(&self) -> Value {
        match self {
            Op::Parse { subj } => json!({"op":"Parse","subj":subj}),
            Op::Compile { subj, slot, script, twice } => {
                json!({"op":"Compile","subj":subj,"slot":slot,"script":script,"twice":twice})
            }
            Op::CompileQuiet { subj, slot } => json!({"op":"CompileQuiet","subj":subj,"slot":slot}),
            Op::Render { slot, path } => json!({"op":"Render","slot":slot,"path":path}),
            Op::IoMap { slot } => json!({"op":"IoMap","slot":slot}),
            Op::Unrelated { texts, script } => json!({"op":"Unrelated","texts":texts,"script":script}),
            Op::ClockShift { delta } => json!({"op":"ClockShift","delta":delta}),
            Op::SwitchThread { t } => json!({"op":"SwitchThread","t":t}),
            Op::NewEpoch => json!({"op":"NewEpoch"}),
            Op::LoggerLevel { level } => json!({"op":"LoggerLevel","level":level}),
            Op::EnvChange => json!({"op":"EnvChange"}),
            Op::Compare { a, b } => json!({"op":"Compare","a":a,"b":b}),
        }
    }

    pub fn from_json(v: &Value) -> Result<Op, String> {
        let name = v["op"].as_str().ok_or("op without name")?;
        let us = |k: &str| v[k].as_u64().map(|x| x as usize).ok_or(format!("{name}: missing {k}"));
        let script = |k: &str| -> Result<Vec<i64>, String> {
            v[k].as_array()
                .ok_or(format!("{name}: missing {k}"))?
                .iter()
                .map(|x| x.as_i64().ok_or(format!("{name}: bad delta")))
                .collect()
        };
        Ok(match name {
            "Parse" => Op::Parse { subj: us("subj")? },
            "Compile" => Op::Compile {
                subj: us("subj")?,
                slot: us("slot")?,
                script: script("script")?,
                twice: v["twice"].as_bool().unwrap_or(false),
            },
            "CompileQuiet" => Op::CompileQuiet { subj: us("subj")?, slot: us("slot")? },
            "Render" => Op::Render { slot: us("slot")?, path: us("path")? },
            "IoMap" => Op::IoMap { slot: us("slot")? },
            "Unrelated" => Op::Unrelated {
                texts: v["texts"]
                    .as_array()
                    .ok_or("Unrelated: missing texts")?
                    .iter()
                    .map(|t| t.as_str().map(String::from).ok_or("Unrelated: bad text".to_string()))
                    .collect::<Result<_, _>>()?,
                script: script("script")?,
            },
            "ClockShift" => Op::ClockShift { delta: v["delta"].as_i64().ok_or("ClockShift: missing delta")? },
            "SwitchThread" => Op::SwitchThread { t: us("t")? },
            "NewEpoch" => Op::NewEpoch,
            "LoggerLevel" => Op::LoggerLevel { level: us("level")? as u8 },
            "EnvChange" => Op::EnvChange,
            "Compare" => Op::Compare { a: us("a")?, b: us("b")? },
            other => return Err(format!("unknown op {other}")),
        })
    }
}

#[derive(Clone, Debug, PartialEq)]
pub struct Scenario {
    pub subjects: Vec<String>,
    pub paths: Vec<String>,
    pub clock_start: u64,
    pub hash_seed: u64,
    pub ops: Vec<Op>,
}

impl Scenario {
    pub fn to_json(&self) -> Value {
        json!({
            "subjects": self.subjects,
            "paths": self.paths,
            "clock_start": self.clock_start,
            "hash_seed": self.hash_seed,
            "ops": self.ops.iter().map(|o| o.to_json()).collect::<Vec<_>>(),
        })
    }

    pub fn from_json(v: &Value) -> Result<Scenario, String> {
        let strs = |k: &str| -> Result<Vec<String>, String> {
            v[k].as_array()
                .ok_or(format!("scenario: missing {k}"))?
                .iter()
                .map(|s| s.as_str().map(String::from).ok_or(format!("scenario: bad {k}")))
                .collect()
        };
        Ok(Scenario {
            subjects: strs("subjects")?,
            paths: strs("paths")?,
            clock_start: v["clock_start"].as_u64().ok_or("scenario: missing clock_start")?,
            hash_seed: v["hash_seed"].as_u64().ok_or("scenario: missing hash_seed")?,
            ops: v["ops"]
                .as_array()
                .ok_or("scenario: missing ops")?
                .iter()
                .map(Op::from_json)
                .collect::<Result<_, _>>()?,
        })
    }

    /// Hash of the op-kind sequence, threads and clock/epoch events: the "shape" of a history.
    pub fn shape(&self) -> u64 {
        let mut words = vec![self.ops.len() as u64];
        for op in &self.ops {
            words.push(crate::rng::hash_str(op.kind()));
            match op {
                Op::Compile { script, subj, .. } => {
                    words.push(*subj as u64);
                    words.push(script.iter().filter(|d| **d != 0).count() as u64);
                }
                Op::ClockShift { delta } => words.push(delta.signum() as u64),
                Op::SwitchThread { t } => words.push(*t as u64),
                Op::Render { slot, path } => words.push((*slot * 16 + *path) as u64),
                Op::CompileQuiet { subj, slot } => words.push((*subj * 8 + *slot) as u64),
                _ => {}
            }
        }
        mix(&words)
    }
}

/// Clock readings around one compile call.
#[derive(Clone, Debug, PartialEq)]
pub struct Window {
    pub entry: u64,
    pub exit: u64,
    pub served: Vec<u64>,
}

impl Window {
    pub fn lo(&self) -> u64 {
        self.served.iter().copied().chain([self.entry, self.exit]).min().unwrap()
    }
    pub fn hi(&self) -> u64 {
        self.served.iter().copied().chain([self.entry, self.exit]).max().unwrap()
    }
}

pub type Table = Option<Vec<(u32, String)>>;

/// What one operation let the caller observe.
#[derive(Clone, Debug, PartialEq)]
pub enum Obs {
    Parsed { subj: usize, dump: Result<String, String> },
    Compiled {
        subj: usize,
        slot: usize,
        window: Window,
        /// program rendered for FIXED_PATH, or the parse/compile error text
        text: Result<String, String>,
        table: Table,
        /// facts read off the public AST: time tests in the tree
        time_tests: usize,
        /// hashed resources: distinct (pattern, insensitive) + printers
        resources: usize,
        /// the tree holds a test kind this harness does not know (whether it embeds the clock is
        /// then unknown)
        unknown_tests: bool,
        /// iteration-order fingerprint of a fresh std HashMap made on the calling thread right
        /// before the call (reach probe for the hash-key seam)
        probe_order: u64,
    },
    /// a handle was created without being looked at
    CompiledQuiet { subj: usize, slot: usize, ok: bool },
    Rendered { slot: usize, path: usize, text: String, clock_reads: usize },
    IoMapped { slot: usize, table: Table },
    Panicked { what: &'static str, subj_or_slot: usize, message: String },
    /// two parse results compared with `==` and compiled under a clock that stands still
    Compared {
        a: usize,
        b: usize,
        /// both texts parsed
        parsed: bool,
        trees_equal: bool,
        options_equal: bool,
        dumps_equal: bool,
        /// the second value is a clone of the first parse result (when the tree type is `Clone`)
        cloned: bool,
        /// number of handles on sub-expressions of the FIRST value that the caller held while it was
        /// compiled (the second value: a second parse result nobody else refers to)
        handles_held: usize,
        /// rendered programs (or error texts) and tables of the two
        outcome_a: Option<(Result<String, String>, Table)>,
        outcome_b: Option<(Result<String, String>, Table)>,
    },
    /// environment-only operations and ops on empty slots
    Nothing,
}

impl Obs {
    pub fn digest_into(&self, d: &mut crate::rng::Digest) {
        d.text(&format!("{self:?}"));
    }

    /// What the caller observed, without the harness's own reach probe (which legitimately
    /// differs between hash-key epochs and processes).
    pub fn stable(&self) -> String {
        match self {
            Obs::Compiled { subj, slot, window, text, table, time_tests, resources, .. } => {
                format!("Compiled {subj} {slot} {window:?} {text:?} {table:?} {time_tests} {resources}")
            }
            other => format!("{other:?}"),
        }
    }
}

/// A compiled expression as the caller sees it: something that can be rendered for a path and
/// asked for its destination table. The concrete type lives in a private module of the crate and
/// cannot be named, so it is captured in closures.
pub struct Compiled {
    scheme: Box<dyn Fn(&str) -> String>,
    table: Box<dyn Fn() -> Table>,
}

/// The simulator hands a `Compiled` from one caller thread to another, but never lets two
/// threads touch it at the same time (one operation is released at a time, with channel
/// hand-offs in between). That is all the thread-safety the histories need, so the harness does
/// not depend on the auto traits of the type under test (it must keep building if they change).
pub struct Handoff<T>(pub T);
unsafe impl<T> Send for Handoff<T> {}
unsafe impl<T> Sync for Handoff<T> {}

impl Compiled {
    pub fn scheme(&self, path: &str) -> String {
        (self.scheme)(path)
    }
    pub fn table(&self) -> Table {
        (self.table)()
    }
}

pub fn sorted_table<'a, I>(m: Option<I>) -> Table
where
    I: IntoIterator<Item = (u32, String)>,
{
    m.map(|it| {
        let mut v: Vec<(u32, String)> = it.into_iter().collect();
        v.sort();
        v
    })
}

/// Facts read off the public AST: (time tests, hashed resources).
pub fn tree_facts(e: &lipe_find_parser::ast::Expression) -> (usize, usize) {
    let (t, r, _) = tree_facts3(e);
    (t, r)
}

/// (time tests, hashed resources, tree contains a test kind unknown to this harness)
pub fn tree_facts3(e: &lipe_find_parser::ast::Expression) -> (usize, usize, bool) {
    crate::astwalk::tree_facts3(e)
}

/// parse + compile, everything observable boxed up. Runs on a caller thread.
fn compile_tree(
    tree: &lipe_find_parser::ast::Expression,
    opts: &lipe_find_parser::RunOptions,
) -> Result<Compiled, String> {
    let mut call = || compile(tree, opts);
    let c = at_depth(next_call_depth(), &mut call).map_err(|e| format!("compile error: {e}"))?;
    let c = std::rc::Rc::new(c);
    let c2 = c.clone();
    Ok(Compiled {
        scheme: Box::new(move |p: &str| c.scheme(p)),
        table: Box::new(move || {
            sorted_table(
                c2.io_map()
                    .map(|m| m.iter().map(|(k, t)| (*k, format!("{t:?}"))).collect::<Vec<_>>()),
            )
        }),
    })
}

/// Fingerprint of the iteration order of a new std HashMap on the current thread.
pub fn hash_order_probe() -> u64 {
    let mut m = std::collections::HashMap::new();
    for i in 0..12u64 {
        m.insert(i, ());
    }
    let order: Vec<u64> = m.keys().copied().collect();
    mix(&order)
}

enum Job {
    CompileQuiet { subj: usize, slot: usize, text: String },
    Parse { subj: usize, text: String },
    Compile { subj: usize, slot: usize, text: String, script: Vec<i64>, twice: bool },
    Render { slot: usize, path_idx: usize, compiled: Arc<Handoff<Compiled>>, path: String },
    IoMap { slot: usize, compiled: Arc<Handoff<Compiled>> },
    Unrelated { texts: Vec<String>, script: Vec<i64> },
    Compare { a: usize, b: usize, text_a: String, text_b: String },
    Stop,
}

struct Reply {
    obs: Vec<Obs>,
    compiled: Vec<Handoff<Compiled>>,
}

fn panic_message(p: Box<dyn std::any::Any + Send>) -> String {
    if let Some(s) = p.downcast_ref::<&str>() {
        s.to_string()
    } else if let Some(s) = p.downcast_ref::<String>() {
        s.clone()
    } else {
        "panic".to_string()
    }
}

fn begin_call(env: &Env, script: &[i64]) -> u64 {
    let mut st = env.lock().unwrap();
    st.script = script.iter().copied().collect();
    st.served.clear();
    st.now
}

fn end_call(env: &Env, entry: u64) -> Window {
    let mut st = env.lock().unwrap();
    let w = Window { entry, exit: st.now, served: std::mem::take(&mut st.served) };
    w
}

/// Runs `f` with `kib` KiB more of the thread's stack in use than the caller has: the depth of the
/// call site is part of the environment of a library call (code that measures or probes the stack —
/// recursion guards, `stacker`-like growth — sees it), and an embedding program does not always call
/// from the same depth.
#[inline(never)]
fn at_depth<R>(kib: usize, f: &mut dyn FnMut() -> R) -> R {
    if kib == 0 {
        return f();
    }
    let mut pad = [0u8; 1024];
    std::hint::black_box(&mut pad);
    let r = at_depth(kib - 1, f);
    std::hint::black_box(&pad);
    r
}

/// Extra stack depth (KiB) of the next library call of a caller thread: a function of the thread's
/// key and of how many calls it has made.
const CALL_DEPTHS_KIB: [usize; 8] = [0, 0, 0, 16, 64, 256, 600, 900];
thread_local! {
    static CALLS_MADE: std::cell::Cell<u64> = const { std::cell::Cell::new(0) };
    static THREAD_KEY: std::cell::Cell<u64> = const { std::cell::Cell::new(0) };
}
fn next_call_depth() -> usize {
    let n = CALLS_MADE.with(|c| {
        c.set(c.get() + 1);
        c.get()
    });
    CALL_DEPTHS_KIB[(mix(&[THREAD_KEY.with(|k| k.get()), n]) % CALL_DEPTHS_KIB.len() as u64) as usize]
}

fn caller_thread(env: Env, hash_key: u64, jobs: Receiver<Job>, replies: Sender<Reply>) {
    THREAD_KEY.with(|k| k.set(hash_key));
    let _guard = seam::enter(&env, hash_key);
    while let Ok(job) = jobs.recv() {
        let mut reply = Reply { obs: vec![], compiled: vec![] };
        // the process-wide `environ` block is the simulated one while this operation runs
        // (restored before the reply is sent: the next operation may run on another thread)
        let environ_guard = if matches!(job, Job::Stop) { None } else { Some(seam::swap_environ(&env)) };
        match job {
            Job::Stop => break,
            Job::CompileQuiet { subj, slot, text } => {
                let r = catch_unwind(AssertUnwindSafe(|| {
                    let (opts, tree) = parse!(&text).map_err(|e| format!("parse error: {e}"))?;
                    compile_tree(&tree, &opts)
                }));
                match r {
                    Ok(Ok(c)) => {
                        reply.obs.push(Obs::CompiledQuiet { subj, slot, ok: true });
                        reply.compiled.push(Handoff(c));
                    }
                    Ok(Err(_)) => reply.obs.push(Obs::CompiledQuiet { subj, slot, ok: false }),
                    Err(p) => reply.obs.push(Obs::Panicked { what: "compile", subj_or_slot: subj, message: panic_message(p) }),
                }
            }
            Job::Parse { subj, text } => {
                let r = catch_unwind(AssertUnwindSafe(|| match parse!(&text) {
                    Ok((opts, tree)) => Ok(format!("{opts:?} {tree:?}")),
                    Err(e) => Err(format!("parse error: {e}")),
                }));
                reply.obs.push(match r {
                    Ok(dump) => Obs::Parsed { subj, dump },
                    Err(p) => Obs::Panicked { what: "parse", subj_or_slot: subj, message: panic_message(p) },
                });
            }
            Job::Compile { subj, slot, text, script, twice } => {
                let parsed = catch_unwind(AssertUnwindSafe(|| parse!(&text)));
                match parsed {
                    Err(p) => reply.obs.push(Obs::Panicked {
                        what: "parse",
                        subj_or_slot: subj,
                        message: panic_message(p),
                    }),
                    Ok(Err(e)) => reply.obs.push(Obs::Compiled {
                        subj,
                        slot,
                        window: Window { entry: 0, exit: 0, served: vec![] },
                        text: Err(format!("parse error: {e}")),
                        table: None,
                        time_tests: 0,
                        resources: 0,
                        unknown_tests: false,
                        probe_order: 0,
                    }),
                    Ok(Ok((opts, tree))) => {
                        let (time_tests, resources, unknown_tests) = tree_facts3(&tree);
                        let probe_order = hash_order_probe();
                        let entry0 = begin_call(&env, &script);
                        for rep in 0..(if twice { 2 } else { 1 }) {
                            let entry = if rep == 0 { entry0 } else { env.lock().unwrap().now };
                            if rep == 1 {
                                env.lock().unwrap().served.clear();
                            }
                            let r = catch_unwind(AssertUnwindSafe(|| compile_tree(&tree, &opts)));
                            let window = {
                                let mut st = env.lock().unwrap();
                                Window { entry, exit: st.now, served: std::mem::take(&mut st.served) }
                            };
                            match r {
                                Err(p) => reply.obs.push(Obs::Panicked {
                                    what: "compile",
                                    subj_or_slot: subj,
                                    message: panic_message(p),
                                }),
                                Ok(Err(e)) => reply.obs.push(Obs::Compiled {
                                    subj,
                                    slot,
                                    window,
                                    text: Err(e),
                                    table: None,
                                    time_tests,
                                    resources,
                                    unknown_tests,
                                    probe_order,
                                }),
                                Ok(Ok(c)) => {
                                    // rendering is outside the compile window
                                    let saved: Vec<i64> = {
                                        let mut st = env.lock().unwrap();
                                        let s = st.script.drain(..).collect();
                                        s
                                    };
                                    let rendered = catch_unwind(AssertUnwindSafe(|| (c.scheme(FIXED_PATH), c.table())));
                                    {
                                        let mut st = env.lock().unwrap();
                                        st.script = saved.into_iter().collect();
                                        st.served.clear();
                                    }
                                    match rendered {
                                        Ok((text, table)) => {
                                            reply.obs.push(Obs::Compiled {
                                                subj,
                                                slot,
                                                window,
                                                text: Ok(text),
                                                table,
                                                time_tests,
                                                resources,
                                                unknown_tests,
                                                probe_order,
                                            });
                                            reply.compiled.push(Handoff(c));
                                        }
                                        Err(p) => reply.obs.push(Obs::Panicked {
                                            what: "render",
                                            subj_or_slot: slot,
                                            message: panic_message(p),
                                        }),
                                    }
                                }
                            }
                        }
                        let _ = end_call(&env, entry0);
                    }
                }
            }
            Job::Render { slot, path_idx, compiled, path } => {
                let entry = begin_call(&env, &[]);
                let r = catch_unwind(AssertUnwindSafe(|| compiled.0.scheme(&path)));
                let w = end_call(&env, entry);
                reply.obs.push(match r {
                    Ok(text) => Obs::Rendered { slot, path: path_idx, text, clock_reads: w.served.len() },
                    Err(p) => Obs::Panicked { what: "render", subj_or_slot: slot, message: panic_message(p) },
                });
            }
            Job::IoMap { slot, compiled } => {
                let r = catch_unwind(AssertUnwindSafe(|| compiled.0.table()));
                reply.obs.push(match r {
                    Ok(table) => Obs::IoMapped { slot, table },
                    Err(p) => Obs::Panicked { what: "io_map", subj_or_slot: slot, message: panic_message(p) },
                });
            }
            Job::Compare { a, b, text_a, text_b } => {
                let entry = begin_call(&env, &[]);
                let r = catch_unwind(AssertUnwindSafe(|| {
                    let (pa, pb) = (parse!(&text_a), parse!(&text_b));
                    let (Ok((oa, ta)), Ok((ob, tb))) = (pa, pb) else {
                        return Obs::Compared { a, b, parsed: false, trees_equal: false, options_equal: false, dumps_equal: false, cloned: false, handles_held: 0, outcome_a: None, outcome_b: None };
                    };
                    // "compiling equal results": a clone of a parse result is an equal result too
                    let (tb, cloned) = match (a == b && text_a.len() % 3 == 0).then(|| (&CloneProbe(&ta)).try_clone()).flatten() {
                        Some(c) => (c, true),
                        None => (tb, false),
                    };
                    let trees_equal = ta == tb;
                    let options_equal = format!("{oa:?}") == format!("{ob:?}");
                    let dumps_equal = format!("{ta:?}") == format!("{tb:?}");
                    let outcome = |t: &lipe_find_parser::ast::Expression, o: &lipe_find_parser::RunOptions| match compile_tree(t, o) {
                        Ok(c) => (Ok(c.scheme(FIXED_PATH)), c.table()),
                        Err(e) => (Err(e), None),
                    };
                    // an embedding program may hold on to parts of a parse result while it compiles the whole
                    let mut handles = vec![];
                    if a == b && text_a.len() % 3 == 1 {
                        crate::astwalk::inner_handles(&ta, &mut handles);
                    }
                    let handles_held = handles.len();
                    let (outcome_a, outcome_b) = if trees_equal && options_equal { (Some(outcome(&ta, &oa)), Some(outcome(&tb, &ob))) } else { (None, None) };
                    drop(handles);
                    Obs::Compared { a, b, parsed: true, trees_equal, options_equal, dumps_equal, cloned, handles_held, outcome_a, outcome_b }
                }));
                let _ = end_call(&env, entry);
                reply.obs.push(match r {
                    Ok(o) => o,
                    Err(p) => Obs::Panicked { what: "compare", subj_or_slot: a, message: panic_message(p) },
                });
            }
            Job::Unrelated { texts, script } => {
                let entry = begin_call(&env, &script);
                for t in &texts {
                    let _ = catch_unwind(AssertUnwindSafe(|| {
                        if let Ok((o, tree)) = parse!(t) {
                            if let Ok(c) = compile(&tree, &o) {
                                let _ = c.scheme("/dev/other");
                                let _ = c.io_map();
                            }
                        }
                    }));
                }
                let _ = end_call(&env, entry);
                reply.obs.push(Obs::Nothing);
            }
        }
        drop(environ_guard);
        if replies.send(reply).is_err() {
            break;
        }
    }
}

/// `try_clone` gives `Some(clone)` when `T: Clone` and `None` otherwise (method resolution prefers the
/// impl on the value over the one on the reference), so that the harness builds either way.
struct CloneProbe<'a, T>(&'a T);
trait ViaClone<T> {
    fn try_clone(&self) -> Option<T>;
}
impl<T: Clone> ViaClone<T> for CloneProbe<'_, T> {
    fn try_clone(&self) -> Option<T> {
        Some(self.0.clone())
    }
}
trait NoClone<T> {
    fn try_clone(&self) -> Option<T>;
}
impl<T> NoClone<T> for &CloneProbe<'_, T> {
    fn try_clone(&self) -> Option<T> {
        None
    }
}

struct Caller {
    jobs: Sender<Job>,
    replies: Receiver<Reply>,
    handle: Option<std::thread::JoinHandle<()>>,
}

/// Counters of environment events that actually fired in one run.
#[derive(Clone, Debug, Default)]
pub struct Fired {
    pub map: BTreeMap<&'static str, u64>,
}

impl Fired {
    pub fn add(&mut self, k: &'static str, n: u64) {
        *self.map.entry(k).or_insert(0) += n;
    }
    pub fn merge(&mut self, other: &Fired) {
        for (k, v) in &other.map {
            self.add(k, *v);
        }
    }
}

pub struct Outcome {
    /// one entry per operation (Compile with `twice` contributes two), tagged with the op index
    pub obs: Vec<(usize, Obs)>,
    pub fired: Fired,
    pub sim_seconds: u64,
    pub digest: u64,
    /// digest of what the callers observed only (no reach probes, no seam counters): equal for
    /// equal runs even if the library keeps process-wide state that survives from run to run
    pub stable_digest: u64,
}

pub fn level_filter(level: u8) -> log::LevelFilter {
    match level {
        0 => log::LevelFilter::Off,
        1 => log::LevelFilter::Error,
        2 => log::LevelFilter::Warn,
        3 => log::LevelFilter::Debug,
        _ => log::LevelFilter::Trace,
    }
}

/// Execute one scenario against the real library.
pub fn execute(sc: &Scenario) -> Outcome {
    let env = seam::new_env(sc.clock_start.clamp(seam::CLOCK_FLOOR, seam::CLOCK_CEIL));
    env.lock().unwrap().env_seed = sc.hash_seed;
    let mut callers: Vec<Option<Caller>> = (0..MAX_THREADS).map(|_| None).collect();
    let mut epoch: u64 = 0;
    let mut spawned: u64 = 0;
    let mut current = 0usize;
    let mut slots: BTreeMap<usize, Arc<Handoff<Compiled>>> = BTreeMap::new();
    let mut obs: Vec<(usize, Obs)> = vec![];
    let mut fired = Fired::default();
    let mut sim_seconds: u64 = 0;
    log::set_max_level(log::LevelFilter::Off);

    fn retire(callers: &mut Vec<Option<Caller>>) {
        for c in callers.iter_mut() {
            if let Some(mut c) = c.take() {
                let _ = c.jobs.send(Job::Stop);
                if let Some(h) = c.handle.take() {
                    let _ = h.join();
                }
            }
        }
    }

    for (idx, op) in sc.ops.iter().enumerate() {
        // environment-only operations
        match op {
            Op::ClockShift { delta } => {
                let mut st = env.lock().unwrap();
                let before = st.now;
                st.shift(*delta);
                sim_seconds += st.now.abs_diff(before);
                if *delta > 0 {
                    fired.add("clock_forward_jump", 1);
                    if *delta >= (1 << 30) {
                        fired.add("clock_far_future", 1);
                    }
                } else if *delta < 0 {
                    fired.add("clock_backward_step", 1);
                }
                obs.push((idx, Obs::Nothing));
                continue;
            }
            Op::SwitchThread { t } => {
                if *t % MAX_THREADS != current {
                    fired.add("thread_switch", 1);
                }
                current = *t % MAX_THREADS;
                obs.push((idx, Obs::Nothing));
                continue;
            }
            Op::NewEpoch => {
                retire(&mut callers);
                epoch += 1;
                fired.add("hash_epoch_change", 1);
                obs.push((idx, Obs::Nothing));
                continue;
            }
            Op::LoggerLevel { level } => {
                log::set_max_level(level_filter(*level));
                fired.add("logger_flip", 1);
                obs.push((idx, Obs::Nothing));
                continue;
            }
            Op::EnvChange => {
                env.lock().unwrap().env_epoch += 1;
                fired.add("environment_change", 1);
                obs.push((idx, Obs::Nothing));
                continue;
            }
            _ => {}
        }
        let job = match op {
            Op::Compare { a, b } => match (sc.subjects.get(*a), sc.subjects.get(*b)) {
                (Some(ta), Some(tb)) => Job::Compare { a: *a, b: *b, text_a: ta.clone(), text_b: tb.clone() },
                _ => {
                    obs.push((idx, Obs::Nothing));
                    continue;
                }
            },
            Op::Parse { subj } => match sc.subjects.get(*subj) {
                Some(t) => Job::Parse { subj: *subj, text: t.clone() },
                None => {
                    obs.push((idx, Obs::Nothing));
                    continue;
                }
            },
            Op::Compile { subj, slot, script, twice } => match sc.subjects.get(*subj) {
                Some(t) => Job::Compile {
                    subj: *subj,
                    slot: *slot,
                    text: t.clone(),
                    script: script.clone(),
                    twice: *twice,
                },
                None => {
                    obs.push((idx, Obs::Nothing));
                    continue;
                }
            },
            Op::CompileQuiet { subj, slot } => match sc.subjects.get(*subj) {
                Some(t) => Job::CompileQuiet { subj: *subj, slot: *slot, text: t.clone() },
                None => {
                    obs.push((idx, Obs::Nothing));
                    continue;
                }
            },
            Op::Render { slot, path } => match (slots.get(slot), sc.paths.get(*path)) {
                (Some(c), Some(p)) => Job::Render { slot: *slot, path_idx: *path, compiled: c.clone(), path: p.clone() },
                _ => {
                    obs.push((idx, Obs::Nothing));
                    continue;
                }
            },
            Op::IoMap { slot } => match slots.get(slot) {
                Some(c) => Job::IoMap { slot: *slot, compiled: c.clone() },
                None => {
                    obs.push((idx, Obs::Nothing));
                    continue;
                }
            },
            Op::Unrelated { texts, script } => Job::Unrelated { texts: texts.clone(), script: script.clone() },
            _ => unreachable!(),
        };
        if callers[current].is_none() {
            let (jtx, jrx) = channel();
            let (rtx, rrx) = channel();
            let e = env.clone();
            let key = mix(&[sc.hash_seed, epoch, current as u64]);
            spawned += 1;
            let handle = std::thread::Builder::new()
                .name(format!("caller-{current}-e{epoch}"))
                .stack_size(8 << 20)
                .spawn(move || caller_thread(e, key, jrx, rtx))
                .expect("spawn caller thread");
            callers[current] = Some(Caller { jobs: jtx, replies: rrx, handle: Some(handle) });
        }
        let before_now = env.lock().unwrap().now;
        let caller = callers[current].as_ref().unwrap();
        caller.jobs.send(job).expect("caller thread gone");
        let reply = caller.replies.recv().expect("caller thread died");
        sim_seconds += env.lock().unwrap().now.abs_diff(before_now);
        let mut compiled = reply.compiled.into_iter();
        for o in reply.obs {
            if let Obs::Compiled { slot, text: Ok(_), .. } | Obs::CompiledQuiet { slot, ok: true, .. } = &o {
                if let Some(c) = compiled.next() {
                    slots.insert(*slot, Arc::new(c));
                }
            }
            obs.push((idx, o));
        }
    }
    // drop compiled values before their creating threads go away is not required: they own
    // plain heap data. Retire threads now.
    drop(slots);
    retire(&mut callers);
    {
        let st = env.lock().unwrap();
        fired.add("clock_reads_served", st.wall_reads_total);
        fired.add("monotonic_reads_served", st.mono_reads_total);
        fired.add("hash_key_draws", st.getrandom_calls);
        fired.add("in_call_clock_ticks", st.in_call_ticks);
        fired.add("in_call_clock_back_steps", st.in_call_back_steps);
        fired.add("environment_reads_served", st.env_reads_total);
        fired.add("environment_file_opens_seen", st.file_opens_total);
        fired.add("environment_file_opens_denied", st.file_opens_denied);
    }
    fired.add("caller_threads_spawned", spawned);
    let mut d = crate::rng::Digest::new();
    for (i, o) in &obs {
        d.word(*i as u64);
        o.digest_into(&mut d);
    }
    for (k, v) in &fired.map {
        d.text(k);
        d.word(*v);
    }
    let mut sd = crate::rng::Digest::new();
    for (i, o) in &obs {
        sd.word(*i as u64);
        sd.text(&o.stable());
    }
    Outcome { obs, fired, sim_seconds, digest: d.0, stable_digest: sd.0 }
}
