//! Workload generator: find expressions as *text*, so that the real lexer and parser are always
//! on the path. Strings are benign (`[A-Za-z0-9._*?\[\]-]`): escaping of user text is another
//! property's subject. Large numeric constants (>= 10^9) come from a short fixed list, so that a user constant can hardly be
//! mistaken for a simulated clock value.

use crate::rng::Rng;

/// Per-run (swarm) shape of the generated expression.
#[derive(Clone, Debug)]
pub struct GenCfg {
    /// number of -name/-iname/-path/-ipath tests (each distinct pattern is a hashed resource)
    pub matchers: usize,
    /// size of the pattern pool the matchers draw from (small pool => repeated patterns)
    pub pattern_pool: usize,
    /// number of time tests
    pub time_tests: usize,
    /// number of other tests
    pub fillers: usize,
    /// explicit actions, in order of appearance
    pub actions: Vec<ActionKind>,
    /// number of distinct output file names available to file actions
    pub file_pool: usize,
    /// which slice of the file-name vocabulary (relative, absolute, nested, ...) this run uses
    pub file_base: usize,
    /// emit -threads N / -depth in front
    pub leading_options: bool,
    /// emit a global option in the middle of the expression
    pub misplaced_option: bool,
    /// allow `-o`, `,` and `!`
    pub allow_or: bool,
    pub allow_list: bool,
    pub allow_not: bool,
    /// every format string contains %p (records attributable to one file)
    pub formats_have_path: bool,
    /// rich formats (many fields) or minimal ones
    pub rich_formats: bool,
    /// number of constructs that parse but that `compile` refuses (inserted at random places, so
    /// that compilation fails part-way through, after earlier leaves have had their effects)
    pub unsupported: usize,
    /// draw some strings (patterns, pool and xattr names, format literals) from a vocabulary that
    /// looks like template placeholders or like device paths
    pub placeholder_strings: bool,
    /// also use format escapes that the pinned code generator passes through verbatim and that
    /// make the emitted program unreadable (`\\c`); such workloads are set aside when unreadable
    pub risky_specials: bool,
    /// vary the layout (blank runs, newlines, redundant parentheses up to depth 100)
    pub layout_variants: bool,
    /// user strings may contain backslashes, double quotes and tabs (C15 only: the pinned tree does
    /// not escape them in the emitted program, which is another property's subject)
    pub hostile_strings: bool,
    /// out of 4: how many tests are drawn from the "passes for most files" vocabulary (C16 wants
    /// records to be emitted; 0 = fully discriminating tests)
    pub likely_true: u64,
}

#[derive(Clone, Copy, Debug, PartialEq, Eq)]
pub enum ActionKind {
    Print,
    Print0,
    FPrint,
    FPrint0,
    PrintfNl,
    PrintfRaw,
    FPrintf,
    Quit,
    PrintFid,
    /// `-ls` / `-fls FILE`: refused by the pinned compiler (probe for a future implementation)
    Ls,
    FLs,
}

pub const ALL_ACTIONS: [ActionKind; 9] = [
    ActionKind::Print,
    ActionKind::Print0,
    ActionKind::FPrint,
    ActionKind::FPrint0,
    ActionKind::PrintfNl,
    ActionKind::PrintfRaw,
    ActionKind::FPrintf,
    ActionKind::Quit,
    ActionKind::PrintFid,
];

const NAME_STEMS: [&str; 12] = [
    "data", "core", "tmp", "log", "a", "zz", "Makefile", "x86", "chk", "res", "img", "conf",
];
const NAME_TAILS: [&str; 10] = ["", ".txt", ".log", "*", "?", ".[ch]", "*.o", "_?", ".dat", "[0-9]"];

pub fn pattern(pool_index: usize) -> String {
    // deterministic function of the index: the pool is "the first n patterns"
    let stem = NAME_STEMS[pool_index % NAME_STEMS.len()];
    let tail = NAME_TAILS[(pool_index / NAME_STEMS.len()) % NAME_TAILS.len()];
    let gen = pool_index / (NAME_STEMS.len() * NAME_TAILS.len());
    if gen == 0 {
        format!("{stem}{tail}")
    } else {
        format!("{stem}{gen}{tail}")
    }
}

pub fn out_file(i: usize) -> String {
    // neighbours are often spellings of one path (./x and x, a//b and a/b, case variants): a run
    // draws a window of consecutive names, so aliases of one file co-occur
    // (/dev/stdout, /dev/fd/1 and /proc/self/fd/1 are the scan's own standard output under other names)
    const NAMES: [&str; 27] = [
        "out.txt", "./out.txt", "OUT.TXT", "list0", "/tmp/out.txt", "/tmp//out.txt", "big.lst", "./big.lst",
        "/var/tmp/scan/list.0", "user_files.txt", "./rel.out", "rel.out", "r-2.out", "sub/dir.lst", "sub//dir.lst",
        "sub/./dir.lst", "/tmp/out.txt.1", "../up.txt", "F", "f", "/dev/stdout", "/dev/fd/1", "/proc/self/fd/1", "/dev/stderr", "/x", "//x", "x",
    ];
    NAMES[i % NAMES.len()].to_string()
}

fn cmp_prefix(rng: &mut Rng) -> &'static str {
    *rng.pick(&["", "", "+", "-"])
}

/// Strings that a templating step might mistake for its own placeholder, and typical device paths.
pub const PLACEHOLDERS: [&str; 34] = [
    // characters a templating step might reserve as an internal marker
    "\u{fdd0}", "a\u{fdd0}b", "\u{ffff}", "\u{fffe}", "\u{e000}", "\u{f8ff}", "\u{1}", "\u{1f}", "\u{7f}x", "\u{fffd}", "\u{10ffff}", "\u{1a}",
    "{mdt}", "{}", "{0}", "{path}", "{device}", "{mdt_path}", "%s", "%MDT%", "$mdt", "${mdt}", "@mdt@", "<mdt>", "__MDT__",
    "{{mdt}}", "{mdt", "mdt}", "MDT", "/dev/sim0", "/", "/dev/mapper/mdt0", "{dev}", "#mdt#",
];

static DICTIONARY: std::sync::OnceLock<Vec<String>> = std::sync::OnceLock::new();
static NEW_WORDS: std::sync::OnceLock<Vec<String>> = std::sync::OnceLock::new();

/// Option-like literals of the pinned tree's source (`-name`, `-print`, ... also the ones it
/// refuses or panics on, which belong to other properties). A literal of that shape that is NOT in
/// this list is syntax a change has added: the generators try it out.
const PINNED_OPTION_WORDS: [&str; 59] = [
    "-amin", "-and", "-anerr", "-anewer", "-atime", "-cmin", "-cnewer", "-ctime", "-depth", "-empty", "-executable", "-false", "-fls", "-fprint", "-fprint0",
    "-fprintf", "-fstype", "-gid", "-group", "-ilname", "-iname", "-inum", "-ipath", "-iregex", "-links", "-ls", "-maxdepth", "-mindepth", "-mirror-count", "-mmin",
    "-mnewer", "-mtime", "-name", "-nogroup", "-notanoption", "-nouser", "-or", "-path", "-perm", "-pool", "-print", "-print-file-fid", "-print0", "-printf", "-prune",
    "-quit", "-readable", "-regex", "-samefile", "-size", "-stripe-count", "-threads", "-true", "-type", "-uid", "-user", "-writable", "-xattr", "-xattr-match",
];

/// Words that look like options of a find expression, found in the library's source and unknown
/// to the pinned tree (empty on the pinned tree).
pub fn new_option_words() -> &'static [String] {
    NEW_WORDS.get().map(|d| d.as_slice()).unwrap_or(&[])
}

/// Does the text use syntax that only a changed tree knows?
pub fn uses_new_words(text: &str) -> bool {
    let words = new_option_words();
    !words.is_empty() && text.split_whitespace().any(|t| words.iter().any(|w| w == t))
}

/// An expression from the configured vocabulary; when the library's source has option-like words
/// the pinned tree does not know, one expression in three tries one of them: in front (where a
/// global option goes) or as a leaf, bare or with a number, a word or a file name after it.
pub fn expression(rng: &mut Rng, cfg: &GenCfg) -> String {
    let base = expression_inner(rng, cfg);
    let words = new_option_words();
    if words.is_empty() || !rng.chance(1, 3) {
        return base;
    }
    let w = &words[rng.usize_below(words.len())];
    let leaf = match rng.below(7) {
        0 | 1 | 2 => w.clone(),
        3 => format!("{w} {}", rng.range(0, 9)),
        4 => format!("{w} +{}", rng.range(0, 9)),
        5 => format!("{w} {}", pattern(rng.usize_below(cfg.pattern_pool.max(1)))),
        _ => format!("{w} {}", out_file(rng.usize_below(cfg.file_pool.max(1)) + cfg.file_base)),
    };
    if base.trim().is_empty() {
        return leaf;
    }
    if rng.chance(2, 3) {
        format!("{leaf} {base}")
    } else {
        format!("{base} {leaf}")
    }
}

/// Load the dictionary harvested from the library's own string literals (run.sh writes it next to
/// the target directory's binaries at build time). Called once by `main` on the coordinator
/// thread, before any simulated thread exists. A missing file is an empty dictionary.
pub fn load_dictionary() -> usize {
    // (getenv and open are seams, but only for simulated threads: this is the coordinator)
    let words = DICTIONARY.get_or_init(|| {
        let path = std::env::var_os("VERIF_ROOT").map(std::path::PathBuf::from).unwrap_or_else(|| std::path::PathBuf::from("/verif")).join("target/dict.json");
        std::fs::read_to_string(path).ok()
            .and_then(|t| serde_json::from_str::<Vec<String>>(&t).ok())
            .unwrap_or_default()
    });
    NEW_WORDS.get_or_init(|| {
        let path = std::env::var_os("VERIF_ROOT").map(std::path::PathBuf::from).unwrap_or_else(|| std::path::PathBuf::from("/verif")).join("target/dict_options.json");
        let all: Vec<String> = std::fs::read_to_string(path).ok().and_then(|t| serde_json::from_str::<Vec<String>>(&t).ok()).unwrap_or_default();
        all.into_iter().filter(|w| !PINNED_OPTION_WORDS.contains(&w.as_str())).collect()
    });
    words.len()
}

pub fn dictionary() -> &'static [String] {
    DICTIONARY.get().map(|d| d.as_slice()).unwrap_or(&[])
}

/// A string that a templating step might mistake for its own marker: one of the fixed look-alikes
/// or, one time in three, a word of the library's own source.
pub fn placeholder(rng: &mut Rng) -> String {
    let dict = DICTIONARY.get().map(|d| d.as_slice()).unwrap_or(&[]);
    if !dict.is_empty() && rng.chance(1, 3) {
        let w = &dict[rng.usize_below(dict.len())];
        // a prefix such as `%lf3:port:` is completed the way the library completes it
        if w.ends_with(':') && rng.chance(1, 2) {
            return format!("{w}{}", rng.below(4));
        }
        return w.clone();
    }
    if rng.chance(1, 6) {
        // a code point from the families an internal marker is usually taken from: noncharacters
        // (U+FDD0..U+FDEF, the last two of every plane) and the first few private-use code points
        // of each private-use area (a marker "base + index")
        let cp = match rng.below(5) {
            0 => 0xFDD0 + rng.below(32) as u32,
            1 => (rng.below(17) as u32) * 0x10000 + 0xFFFE + rng.below(2) as u32,
            2 => 0xE000 + rng.below(24) as u32,
            3 => 0xF0000 + rng.below(24) as u32,
            _ => 0x100000 + rng.below(24) as u32,
        };
        if let Some(c) = char::from_u32(cp) {
            return if rng.chance(1, 2) { c.to_string() } else { format!("a{c}b") };
        }
    }
    rng.pick(&PLACEHOLDERS).to_string()
}

fn unsupported_leaf(rng: &mut Rng) -> String {
    rng.pick(&[
        "-user bob", "-group staff", "-user root", "-group root", "-user 0", "-regex x.*", "-iregex x", "-lname x", "-ilname x", "-samefile f", "-anewer f",
        "-cnewer f", "-mnewer f", "-fstype ext4", "-nouser", "-nogroup", "-ls", "-fls f.out", "-prune",
        "-printf \"%d\\n\"", "-printf '%M %p\\n'", "-fprintf o.txt '%l'",
    ])
    .to_string()
}

fn likely_true_test(rng: &mut Rng) -> String {
    // simulated files have times within 200 days before the compile clock, sizes >= 1, uids < 70000
    rng.pick(&[
        "-true", "-true", "-mtime -300", "-atime -250", "-ctime -9999h", "-mmin -999999", "-name '*'", "-path 'd*'",
        "-iname '*'", "-name ?*", "-type f,d,l,p", "-size +0c", "-uid -70000", "-gid -5000", "-links -9", "-perm -000",
        "-inum +0", "-stripe-count +0", "! -false", "-ipath 'D*'",
    ])
    .to_string()
}

fn time_test(rng: &mut Rng) -> String {
    let which = *rng.pick(&["-amin", "-atime", "-cmin", "-ctime", "-mmin", "-mtime"]);
    let unit = *rng.pick(&["", "", "s", "m", "h", "d"]);
    let n = match rng.below(4) {
        0 => rng.below(3),
        1 => rng.below(100),
        _ => rng.below(100_000),
    };
    format!("{which} {}{n}{unit}", cmp_prefix(rng))
}

fn matcher_test(rng: &mut Rng, cfg: &GenCfg) -> String {
    let which = *rng.pick(&["-name", "-name", "-iname", "-path", "-ipath"]);
    let mut p = pattern(rng.usize_below(cfg.pattern_pool.max(1)));
    if cfg.placeholder_strings && rng.chance(1, 3) {
        p = placeholder(rng);
        if rng.chance(1, 3) {
            p = format!("a{p}*");
        }
    }
    if cfg.hostile_strings && rng.chance(1, 10) {
        // backslashes, double quotes and control characters in a name (single-quoted): only for
        // the property that compares programs as texts and never reads them
        let specials: Vec<char> = "\\\"\t\\\"$ ".chars().collect();
        let mut text = String::new();
        for i in 0..rng.range(2, 4) {
            if i > 0 {
                for _ in 0..rng.range(1, 3) {
                    text.push(*rng.pick(&specials));
                }
            }
            text.push_str(NAME_STEMS[rng.usize_below(NAME_STEMS.len())]);
        }
        if rng.chance(1, 3) {
            text.push(*rng.pick(&specials));
        }
        return format!("{which} '{text}'");
    }
    if rng.chance(1, 12) {
        // a name with blanks and shell punctuation in it (quoted; no double quote and no backslash:
        // how user text is escaped in the emitted program is another property's subject)
        let specials: Vec<char> = " $;|&#!<>(){}~^@+=,:%'".chars().collect();
        let mut text = String::new();
        for i in 0..rng.range(2, 5) {
            if i > 0 {
                for _ in 0..rng.range(1, 2) {
                    text.push(*rng.pick(&specials));
                }
            }
            text.push_str(NAME_STEMS[rng.usize_below(NAME_STEMS.len())]);
        }
        return if text.contains('\'') { format!("{which} \"{text}\"") } else { format!("{which} '{text}'") };
    }
    match rng.below(6) {
        0 => format!("{which} '{p}'"),
        1 => format!("{which} \"{p}\""),
        _ => format!("{which} {p}"),
    }
}

fn perm_arg(rng: &mut Rng) -> String {
    // "+MODE" is the obsolete GNU spelling of "/MODE": rejected by the pinned parser
    let prefix = *rng.pick(&["", "", "", "-", "-", "/", "/", "/", "", "-", "/", "+"]);
    if rng.chance(1, 2) {
        let bits = rng.below(0o7777 + 1);
        if rng.chance(1, 2) {
            format!("{prefix}{:03o}", bits & 0o777)
        } else {
            format!("{prefix}{:04o}", bits)
        }
    } else {
        let n = rng.range(1, 3);
        let mut parts = vec![];
        for _ in 0..n {
            // one clause in 8 has no who part (`+x`, `=r`): chmod(1) reads it through the umask;
            // the pinned parser rejects it
            let who_n = if rng.chance(1, 8) { 0 } else { rng.range(1, 2) };
            let mut who = String::new();
            for _ in 0..who_n {
                who.push(*rng.pick(&['u', 'g', 'o', 'a']));
            }
            let op = *rng.pick(&['+', '=', '-']);
            let lvl_n = rng.range(1, 3);
            let mut lvl = String::new();
            for _ in 0..lvl_n {
                lvl.push(*rng.pick(&['r', 'w', 'x']));
            }
            parts.push(format!("{who}{op}{lvl}"));
        }
        format!("{prefix}{}", parts.join(","))
    }
}

/// Mostly a small number below `small`; now and then a boundary value of the 32-bit argument.
fn big_or(rng: &mut Rng, small: u64) -> u64 {
    if rng.chance(1, 12) {
        *rng.pick(&[4294967295u64, 4294967294, 2147483648, 4000000000, 3999999999])
    } else {
        rng.below(small)
    }
}

fn filler_test(rng: &mut Rng) -> String {
    match rng.below(19) {
        0 => "-empty".into(),
        1 => "-executable".into(),
        2 => "-readable".into(),
        3 => "-writable".into(),
        4 => "-true".into(),
        5 => "-false".into(),
        6 => format!("-uid {}{}", cmp_prefix(rng), big_or(rng, 70_000)),
        7 => format!("-gid {}{}", cmp_prefix(rng), big_or(rng, 70_000)),
        8 => format!("-inum {}{}", cmp_prefix(rng), big_or(rng, 900_000)),
        9 => format!("-links {}{}", cmp_prefix(rng), if rng.chance(1, 12) { *rng.pick(&[4294967296u64, 18446744073709551615, 9999999999]) } else { rng.below(12) }),
        10 => format!("-mirror-count {}{}", cmp_prefix(rng), rng.below(5)),
        11 => format!("-stripe-count {}{}", cmp_prefix(rng), rng.below(9)),
        12 => {
            let unit = *rng.pick(&["", "b", "c", "w", "k", "M", "M", "G", "T"]);
            let n = match unit {
                "M" => rng.below(5000),
                "G" => rng.below(3000),
                "T" => rng.below(4000),
                _ => rng.below(100_000),
            };
            format!("-size {}{n}{unit}", cmp_prefix(rng))
        }
        13 => {
            let n = rng.range(1, 3);
            let mut ts = vec![];
            for _ in 0..n {
                ts.push(rng.pick(&["b", "c", "d", "p", "f", "l", "s"]).to_string());
            }
            format!("-type {}", ts.join(","))
        }
        14 => format!("-perm {}", perm_arg(rng)),
        15 => format!("-pool {}", rng.pick(&["fast", "ssd0", "arch_1"])),
        16 => format!("-xattr {}", rng.pick(&["user.tag", "trusted.lov", "user.k2"])),
        17 => format!(
            "-xattr-match {} {}",
            rng.pick(&["user.tag", "user.k2"]),
            rng.pick(&["v1", "blue", "v*", "x?"])
        ),
        _ => format!("-size {}{}c", cmp_prefix(rng), rng.below(5000)),
    }
}

const PLAIN_FIELDS: [&str; 22] = [
    "%P", "%f", "%s", "%U", "%G", "%m", "%i", "%n", "%u", "%g", "%y", "%b", "%k", "%h", "%A@", "%C@",
    "%T@", "%{fid}", "%{projid}", "%{stripe-count}", "%{stripe-size}", "%{mirror-count}",
];
const RICH_FIELDS: [&str; 10] = ["%a", "%c", "%t", "%AY", "%TH", "%Cm", "%{xattr:tag}", "%%", "%H", "%S"];
const LITERALS: [&str; 10] = [",", " ", ":", "=", "id", " - ", "_", "size ", ";", "#"];
const SPECIALS: [&str; 4] = ["\\t", "\\101", "\\a", "\\v"];

/// A printf format (without surrounding quotes). `newline` appends `\n` (keeps plain mode).
pub fn format_string(rng: &mut Rng, cfg: &GenCfg, newline: bool) -> String {
    let mut s = String::new();
    let n = if cfg.rich_formats { rng.range(1, 7) } else { rng.range(0, 2) };
    let path_at = if cfg.formats_have_path { rng.below(n + 1) } else { n + 1 };
    for i in 0..=n {
        if i == path_at {
            s.push_str("%p");
            if rng.chance(1, 2) {
                s.push_str(*rng.pick(&LITERALS));
            }
        }
        if i == n {
            break;
        }
        match rng.below(10) {
            0..=5 => s.push_str(*rng.pick(&PLAIN_FIELDS)),
            6 if cfg.rich_formats => s.push_str(*rng.pick(&RICH_FIELDS)),
            7 => s.push_str(*rng.pick(&SPECIALS)),
            8 if cfg.risky_specials => s.push_str("\\c"),
            _ => {}
        }
        s.push_str(*rng.pick(&LITERALS));
        if cfg.placeholder_strings && rng.chance(1, 4) {
            // a literal that looks like a placeholder ('%' and '~' would be directives: skip those)
            let ph = placeholder(rng);
            if !ph.contains('%') && !ph.contains('~') {
                s.push_str(&ph);
            }
        }
    }
    if s.is_empty() {
        s.push_str("x");
    }
    if cfg.risky_specials && !s.contains("\\c") {
        // `\c` (stop printing here) in the middle of the format, with more text after it
        s.push_str("\\c tail ");
    }
    if newline {
        s.push_str("\\n");
    } else if s.ends_with("\\n") {
        s.push('.');
    }
    s
}

fn action_text(rng: &mut Rng, cfg: &GenCfg, kind: ActionKind) -> String {
    let file = out_file(cfg.file_base + rng.usize_below(cfg.file_pool.max(1)));
    let q = *rng.pick(&["\"", "'"]);
    match kind {
        ActionKind::Print => "-print".into(),
        ActionKind::Print0 => "-print0".into(),
        ActionKind::FPrint => format!("-fprint {file}"),
        ActionKind::FPrint0 => format!("-fprint0 {file}"),
        ActionKind::PrintfNl => format!("-printf {q}{}{q}", format_string(rng, cfg, true)),
        ActionKind::PrintfRaw => format!("-printf {q}{}{q}", format_string(rng, cfg, false)),
        ActionKind::FPrintf => {
            let nl = rng.chance(2, 3);
            format!("-fprintf {file} {q}{}{q}", format_string(rng, cfg, nl))
        }
        ActionKind::Quit => "-quit".into(),
        ActionKind::PrintFid => "-print-file-fid".into(),
        ActionKind::Ls => "-ls".into(),
        ActionKind::FLs => format!("-fls {file}"),
    }
}

fn global_option(rng: &mut Rng) -> String {
    if rng.chance(1, 2) {
        "-depth".into()
    } else {
        match rng.below(10) {
            // boundary values: "0" is a conventional spelling of "automatic"
            0 => "-threads 0".to_string(),
            1 => "-threads 999999999".to_string(), // large, but below the 10^9 clock floor
            _ => format!("-threads {}", rng.range(1, 64)),
        }
    }
}

#[derive(Clone, Debug)]
enum Node {
    Leaf(String, bool), // text, is_action
    Not(Box<Node>),
    Bin(&'static str, Box<Node>, Box<Node>),
}

fn render(node: &Node, rng: &mut Rng, out: &mut String, top: bool) {
    match node {
        Node::Leaf(t, _) => out.push_str(t),
        Node::Not(inner) => {
            out.push_str("! ");
            match **inner {
                Node::Leaf(..) => render(inner, rng, out, false),
                _ => {
                    out.push_str("( ");
                    render(inner, rng, out, true);
                    out.push_str(" )");
                }
            }
        }
        Node::Bin(op, l, r) => {
            let wrap = !top && rng.chance(2, 3);
            if wrap {
                out.push_str("( ");
            }
            render(l, rng, out, false);
            if op.is_empty() {
                out.push(' ');
            } else {
                out.push(' ');
                out.push_str(op);
                out.push(' ');
            }
            render(r, rng, out, false);
            if wrap {
                out.push_str(" )");
            }
        }
    }
}

/// Generate one expression text.
fn expression_inner(rng: &mut Rng, cfg: &GenCfg) -> String {
    let mut leaves: Vec<Node> = vec![];
    for _ in 0..cfg.matchers {
        let t = if rng.below(4) < cfg.likely_true { likely_true_test(rng) } else { matcher_test(rng, cfg) };
        leaves.push(Node::Leaf(t, false));
    }
    for _ in 0..cfg.time_tests {
        let t = if rng.below(4) < cfg.likely_true { likely_true_test(rng) } else { time_test(rng) };
        leaves.push(Node::Leaf(t, false));
    }
    for _ in 0..cfg.fillers {
        let t = if rng.below(4) < cfg.likely_true { likely_true_test(rng) } else { filler_test(rng) };
        leaves.push(Node::Leaf(t, false));
    }
    // a burst: two to five tests of ONE family with different arguments (several pools, several
    // attributes, several owners, several sizes ...): what a set of "things of this kind seen in
    // the expression" needs before its order can show
    if rng.chance(1, 6) {
        let family = rng.below(8);
        for i in 0..rng.range(2, 5) {
            let t = match family {
                0 => format!("-pool {}", ["fast", "ssd0", "arch_1", "slow", "flash2", "p9"][(i as usize + rng.usize_below(3)) % 6]),
                1 => format!("-xattr {}", ["user.tag", "trusted.lov", "user.k2", "user.owner", "security.x", "user.z"][(i as usize + rng.usize_below(3)) % 6]),
                2 => format!("-xattr-match {} {}", ["user.tag", "user.k2", "user.owner", "user.z"][(i as usize) % 4], ["v1", "blue", "v*", "x?"][rng.usize_below(4)]),
                3 => format!("-uid {}", 1000 + i * 7 + rng.below(3)),
                4 => format!("-gid {}", 100 + i * 3 + rng.below(2)),
                5 => format!("-size {}{}", [1u64, 2, 4, 8, 512][(i as usize) % 5], ["k", "M", "c", "b", "G"][rng.usize_below(5)]),
                6 => format!("-type {}", ["f", "d", "l", "p", "s"][(i as usize) % 5]),
                _ => format!("-links {}", 1 + i),
            };
            leaves.push(Node::Leaf(t, false));
        }
    }
    rng.shuffle(&mut leaves);
    // actions are inserted at random positions but keep their relative order
    for kind in &cfg.actions {
        let text = action_text(rng, cfg, *kind);
        let at = rng.usize_below(leaves.len() + 1);
        leaves.insert(at, Node::Leaf(text, true));
    }
    if cfg.placeholder_strings {
        for _ in 0..rng.range(0, 2) {
            let ph = placeholder(rng);
            let t = match rng.below(4) {
                0 => format!("-pool {ph}"),
                1 => format!("-xattr {ph}"),
                2 => format!("-xattr-match user.tag {ph}"),
                _ => format!("-path '*{ph}*'"),
            };
            let at = rng.usize_below(leaves.len() + 1);
            leaves.insert(at, Node::Leaf(t, false));
        }
    }
    for _ in 0..cfg.unsupported {
        let at = rng.usize_below(leaves.len() + 1);
        leaves.insert(at, Node::Leaf(unsupported_leaf(rng), true));
    }
    if cfg.misplaced_option && !leaves.is_empty() {
        let at = rng.usize_below(leaves.len() + 1);
        leaves.insert(at, Node::Leaf(global_option(rng), false));
    }
    if leaves.is_empty() {
        leaves.push(Node::Leaf("-true".into(), false));
    }
    if cfg.allow_not {
        for leaf in leaves.iter_mut() {
            if let Node::Leaf(_, false) = leaf {
                if rng.chance(1, 6) {
                    let inner = std::mem::replace(leaf, Node::Leaf(String::new(), false));
                    *leaf = Node::Not(Box::new(inner));
                }
            }
        }
    }
    // combine neighbours until one tree remains
    while leaves.len() > 1 {
        let at = rng.usize_below(leaves.len() - 1);
        let r = leaves.remove(at + 1);
        let l = leaves.remove(at);
        let op = match rng.below(12) {
            0 | 1 if cfg.allow_or => *rng.pick(&["-o", "-or"]),
            2 if cfg.allow_list => ",",
            3 | 4 => "-a",
            5 => "-and",
            _ => "",
        };
        let mut node = Node::Bin(op, Box::new(l), Box::new(r));
        if cfg.allow_not && rng.chance(1, 25) {
            node = Node::Not(Box::new(node));
        }
        leaves.insert(at, node);
    }
    let mut out = String::new();
    if cfg.leading_options {
        let n = rng.range(1, 2);
        for _ in 0..n {
            out.push_str(&global_option(rng));
            out.push(' ');
        }
    }
    let top = leaves.pop().unwrap();
    render(&top, rng, &mut out, true);
    if cfg.layout_variants {
        // layout the lexer must not care about: runs of blanks and newlines between words
        // (quoted strings are left alone), redundant parentheses around everything
        if rng.chance(1, 3) {
            let depth = *rng.pick(&[1usize, 2, 5, 30, 100]);
            out = format!("{}{}{}", "( ".repeat(depth), out, " )".repeat(depth));
        }
        if rng.chance(1, 2) {
            let mut laid = String::with_capacity(out.len() + 16);
            let mut quote: Option<char> = None;
            for ch in out.chars() {
                match quote {
                    Some(q) => {
                        if ch == q {
                            quote = None;
                        }
                        laid.push(ch);
                    }
                    None => {
                        if ch == '"' || ch == '\'' {
                            quote = Some(ch);
                            laid.push(ch);
                        } else if ch == ' ' {
                            laid.push_str(*rng.pick(&[" ", " ", "  ", "\n", " \n ", "   "]));
                        } else {
                            laid.push(ch);
                        }
                    }
                }
            }
            out = laid;
        }
        if rng.chance(1, 4) {
            out = format!("{}{}{}", rng.pick(&["", " ", "\n", "  "]), out, rng.pick(&["", " ", "\n"]));
        }
    }
    out
}

/// Texts whose parse or compile *fails* (never panics): their error must be deterministic too.
/// Degenerate but valid inputs.
pub const DEGENERATE_SUBJECTS: [&str; 8] = ["", "   ", "-depth", "-threads 3", "-depth -threads 0 -depth", "\n-true\n", "-true", "-print"];

pub const ERROR_SUBJECTS: [&str; 56] = [
    "-newermt now",
    "-newermt yesterday -print",
    "-newerat '2 days ago'",
    "-newerct today",
    "-newermt '1 hour ago' -name x",
    "-newermt @1700000000",
    "-neweraa ref -print",
    "-daystart -mmin -60",
    "-context '*:s0'",
    "-execdir ls {} +",
    "-ok rm {} ;",
    "-okdir rm {} ;",
    "-lname '*.so'",
    "-samefile other",
    "-wholename './src/*'",
    "-size -1048576c -delete",
    "-mtime +1 -fls listing.txt",
    "-follow -name x",
    // GNU find spellings and features the pinned parser rejects (a change that starts accepting
    // one of them must do so deterministically)
    "-perm +222 -print",
    "-type f -perm +u+w",
    "-perm /+w",
    "-perm -+x -print",
    "-perm =r",
    "-perm -u+x,+r -print",
    "-newer ref.txt",
    "-mmin +1.5",
    "-daystart -mtime 1",
    "-regextype posix-extended -regex 'x.*'",
    "-wholename '*/x'",
    "-iwholename x",
    "-xtype f",
    "-delete",
    "-exec ls {} ;",
    "-mount -name x",
    "-xdev -print",
    "-noleaf -print",
    "-used 1",
    "-newermt 2020-01-01",
    "-size 1KiB",
    "-name x -print -depth 3",
    "-H -name x",
    "-not -name x",
    "-name",
    "-amin x",
    "-size 5q",
    "( -true",
    "-true )",
    "-user bob",
    "-ls",
    "-printf \"%d\"",
    "-o",
    "-foo",
    "-uid 99999999999",
    "-mtime 3w",
    "-type q",
    "-print -fls out",
];


/// A near miss of an expression: the same text with one argument respelled — a size in another
/// unit (same number of bytes, now and then not), a mode in the other notation, an output file
/// under another name for the same file, a pattern or a test in the other case. Whether the two
/// parse to equal trees is the library's call; the harness only holds it to its answer.
pub fn near_miss(rng: &mut Rng, text: &str) -> Option<String> {
    let mut toks: Vec<String> = text.split(' ').map(String::from).collect();
    let mut sites: Vec<(usize, u8)> = vec![];
    for i in 0..toks.len() {
        let has_arg = i + 1 < toks.len() && !toks[i + 1].is_empty() && !toks[i + 1].contains(['"', '\'']);
        match toks[i].as_str() {
            "-size" if has_arg => sites.push((i, 0)),
            "-name" | "-iname" | "-path" | "-ipath" => {
                sites.push((i, 1));
                if has_arg {
                    sites.push((i, 2));
                }
            }
            "-perm" if has_arg => sites.push((i, 3)),
            "-fprint" | "-fprint0" | "-fprintf" if has_arg => sites.push((i, 4)),
            "-uid" | "-gid" | "-links" | "-inum" | "-mtime" | "-atime" | "-ctime" | "-mmin" | "-amin" | "-cmin" if has_arg => sites.push((i, 5)),
            _ => {}
        }
    }
    if sites.is_empty() {
        return None;
    }
    let (i, kind) = *rng.pick(&sites);
    match kind {
        0 => {
            let arg = toks[i + 1].clone();
            let (sign, rest) = match arg.chars().next() {
                Some(c @ ('+' | '-')) => (c.to_string(), &arg[1..]),
                _ => (String::new(), &arg[..]),
            };
            let digits: String = rest.chars().take_while(|c| c.is_ascii_digit()).collect();
            let unit = &rest[digits.len()..];
            let n: u128 = digits.parse().ok()?;
            let bytes_of = |u: &str| -> Option<u128> {
                Some(match u {
                    "c" => 1,
                    "w" => 2,
                    "b" | "" => 512,
                    "k" => 1 << 10,
                    "M" => 1 << 20,
                    "G" => 1 << 30,
                    "T" => 1u128 << 40,
                    _ => return None,
                })
            };
            let total = n.checked_mul(bytes_of(unit)?)?;
            let units = ["c", "w", "b", "k", "M", "G", "T", ""];
            let fitting: Vec<&str> = units.iter().copied().filter(|u| *u != unit && total % bytes_of(u).unwrap() == 0).collect();
            let new = if !fitting.is_empty() && !rng.chance(1, 5) {
                let u = *rng.pick(&fitting);
                format!("{sign}{}{u}", total / bytes_of(u).unwrap())
            } else {
                format!("{sign}{n}{}", rng.pick(&units))
            };
            toks[i + 1] = new;
        }
        1 => {
            toks[i] = match toks[i].as_str() {
                "-name" => "-iname",
                "-iname" => "-name",
                "-path" => "-ipath",
                _ => "-path",
            }
            .to_string();
        }
        2 => {
            let flipped: String = toks[i + 1].chars().map(|c| if c.is_ascii_lowercase() { c.to_ascii_uppercase() } else { c.to_ascii_lowercase() }).collect();
            if flipped == toks[i + 1] {
                return None;
            }
            toks[i + 1] = flipped;
        }
        3 => {
            // octal <-> symbolic, for the nine permission bits
            let arg = toks[i + 1].clone();
            let (prefix, rest) = match arg.chars().next() {
                Some(c @ ('-' | '/' | '+')) => (c.to_string(), &arg[1..]),
                _ => (String::new(), &arg[..]),
            };
            if !rest.is_empty() && rest.chars().all(|c| ('0'..='7').contains(&c)) && rest.len() <= 4 {
                let bits = u32::from_str_radix(rest, 8).ok()?;
                if bits > 0o777 {
                    toks[i + 1] = format!("{prefix}{:04o}", bits & 0o777);
                } else {
                    let part = |who: char, b: u32| {
                        let mut p = format!("{who}=");
                        for (m, ch) in [(4, 'r'), (2, 'w'), (1, 'x')] {
                            if b & m != 0 {
                                p.push(ch);
                            }
                        }
                        p
                    };
                    toks[i + 1] = format!("{prefix}{},{},{}", part('u', bits >> 6 & 7), part('g', bits >> 3 & 7), part('o', bits & 7));
                }
            } else {
                // another order of the clauses, or of the letters of a clause
                let mut clauses: Vec<String> = rest.split(',').map(String::from).collect();
                if clauses.len() > 1 {
                    clauses.reverse();
                } else if let Some(pos) = clauses[0].find(['+', '=', '-']) {
                    let (who, lv) = clauses[0].split_at(pos + 1);
                    let rev: String = lv.chars().rev().collect();
                    clauses[0] = format!("{who}{rev}");
                }
                let new = format!("{prefix}{}", clauses.join(","));
                if new == arg {
                    return None;
                }
                toks[i + 1] = new;
            }
        }
        4 => {
            let f = toks[i + 1].clone();
            toks[i + 1] = if let Some(stripped) = f.strip_prefix("./") {
                stripped.to_string()
            } else if f.starts_with('/') {
                format!("/.{f}")
            } else {
                format!("./{f}")
            };
        }
        _ => {
            // another spelling of the same number
            let arg = toks[i + 1].clone();
            let (sign, rest) = match arg.chars().next() {
                Some(c @ ('+' | '-')) => (c.to_string(), &arg[1..]),
                _ => (String::new(), &arg[..]),
            };
            if rest.is_empty() || !rest.chars().all(|c| c.is_ascii_digit()) {
                return None;
            }
            toks[i + 1] = if rng.chance(1, 2) { format!("{sign}0{rest}") } else { format!("{sign}{}", rest.trim_start_matches('0').to_string() + if rest.trim_start_matches('0').is_empty() { "0" } else { "" }) };
            if toks[i + 1] == arg {
                return None;
            }
        }
    }
    Some(toks.join(" "))
}


/// Parentheses and negations nested 20-620 deep (20-110 when the library is built under the dev
/// profile, whose frames are about six times larger): the parser recurses once per level, so code
/// that guards the recursion by measuring the stack behaves differently from one depth on — and the
/// depth of the call site, which the caller threads vary, then decides. The pinned parser overflows an
/// 8 MiB stack somewhere above 3 000 levels; these stay far below.
pub fn nested_expression(rng: &mut Rng) -> String {
    let max = if cfg!(debug_assertions) { 110 } else { 620 };
    let k = 20 + rng.usize_below(max - 20);
    let inner = *rng.pick(&["-name x", "-name a -o -name b", "-mtime -1 -print", "-type f"]);
    match rng.below(4) {
        0 => format!("{}{inner}{}", "( ".repeat(k), " )".repeat(k)),
        1 => format!("{}{inner}", "! ".repeat(k)),
        2 => format!("{}{inner}{}", "! ( ".repeat(k / 2), " )".repeat(k / 2)),
        _ => format!("{}{inner}{} -print", "( ".repeat(k), " )".repeat(k)),
    }
}

/// An expression that is BIG in one dimension: 300 or 1000 distinct patterns or output files in
/// one `-o` chain (indexes kept in 8 bits, programs of 30-240 KiB in front of the scan call, offsets
/// kept in 16 bits; longer chains are left out because the `Debug` text of the left-deep tree, which
/// the parse oracle compares, grows with the cube of the length), or one user string of 70 000 / 1 100 000 bytes (16- and 20-bit
/// length fields). Parentheses are not nested: the pinned parser overflows its stack at a few
/// thousand levels, which is not what these properties are about.
pub fn giant_expression(rng: &mut Rng) -> String {
    match rng.below(4) {
        0 => {
            let n = *rng.pick(&[300usize, 1000]);
            let test = *rng.pick(&["-name", "-iname", "-path"]);
            let tail = *rng.pick(&["", " -print", " -mtime -2 -print0"]);
            format!("( {} ){tail}", (0..n).map(|i| format!("{test} p{i}.dat")).collect::<Vec<_>>().join(" -o "))
        }
        1 => {
            let n = *rng.pick(&[300usize, 1000]);
            let act = *rng.pick(&["-fprint", "-fprint0"]);
            (0..n).map(|i| format!("-name p{i}.dat {act} out{i}.txt")).collect::<Vec<_>>().join(" -o ")
        }
        2 => {
            let n = *rng.pick(&[300usize, 1000]);
            (0..n).map(|i| format!("-uid {i} -fprintf u{}.txt '%p {i}\\n'", i % 300)).collect::<Vec<_>>().join(" -o ")
        }
        _ => {
            let len = *rng.pick(&[70_000usize, 1_100_000]);
            let mut long = String::from("q");
            while long.len() < len {
                long.push_str("/seg_0123456789");
            }
            match rng.below(4) {
                0 => format!("-name '*.log' -o -path '{long}/*' -print"),
                1 => format!("-name '*.log' -fprint {long}.txt"),
                2 => format!("-name '*.log' -printf '{long} %p\\n'"),
                _ => format!("-iname '{long}' -mtime -1"),
            }
        }
    }
}

/// A per-user (or per-group, per-type) report: one output file per value, `n` distinct files in one
/// expression — more than a process may be allowed to open (RLIMIT_NOFILE can be as low as a few
/// dozen), more destinations than one hex digit of tag can number, more than a fixed pool of 64 or
/// 128 locks or slots can serve one each.
pub fn report_expression(rng: &mut Rng) -> String {
    let n = *rng.pick(&[9usize, 17, 18, 24, 33, 49, 65, 65, 130, 257]);
    let (test, stem) = *rng.pick(&[("-uid", "user"), ("-gid", "group"), ("-links", "links"), ("-stripe-count", "stripes")]);
    let action = *rng.pick(&["-fprint", "-fprint", "-fprint0"]);
    let mut parts = vec![];
    for i in 0..n {
        parts.push(format!("{test} {i} {action} {stem}_{i}.txt"));
    }
    let mut out = parts.join(" -o ");
    if rng.chance(1, 3) {
        out = format!("-type f ( {out} )");
    }
    out
}
