//! Coordinator: splits a check into blocks of runs, executes every block in a *fresh child
//! process* (so that no process-global state can leak from one block to the next and a failing
//! block can be reproduced exactly), reduces the results in run-index order, minimises the first
//! violation and writes the evidence file.

use crate::rng::mix;
use serde_json::{json, Map, Value};
use std::collections::{BTreeMap, BTreeSet};
use std::io::Read;
use std::path::{Path, PathBuf};
use std::process::{Command, Stdio};
use std::sync::atomic::{AtomicBool, AtomicUsize, Ordering};
use std::sync::Mutex;
use std::time::Instant;

pub const DEFAULT_SEED: u64 = 20261004;

pub fn verif_root() -> PathBuf {
    std::env::var_os("VERIF_ROOT").map(PathBuf::from).unwrap_or_else(|| PathBuf::from("/verif"))
}

pub fn prop_word(prop: &str) -> u64 {
    crate::rng::hash_str(prop)
}

/// Seed of run `index` of property `prop` under root seed `seed`: independent of block
/// partition and worker count.
pub fn run_seed(seed: u64, prop: &str, index: u64) -> u64 {
    mix(&[seed, prop_word(prop), index])
}

/// What a block child reports (one JSON document on stdout).
#[derive(Debug, Default)]
pub struct BlockResult {
    pub first: u64,
    pub count: u64,
    /// per-run event-log digests, in run order (may be shorter than count after a violation)
    pub digests: Vec<u64>,
    /// per-run digests of the callers' observations only (empty: same as `digests`)
    pub stable_digests: Vec<u64>,
    /// hashes of distinct non-trivial cases (history shapes / interleavings)
    pub distinct: Vec<u64>,
    pub counters: BTreeMap<String, u64>,
    pub violation: Option<Value>,
    pub samples: Vec<Value>,
}

impl BlockResult {
    pub fn to_json(&self) -> Value {
        json!({
            "first": self.first,
            "count": self.count,
            "digests": self.digests.iter().map(|d| format!("{d:016x}")).collect::<Vec<_>>(),
            "stable_digests": self.stable_digests.iter().map(|d| format!("{d:016x}")).collect::<Vec<_>>(),
            "distinct": self.distinct.iter().map(|d| format!("{d:016x}")).collect::<Vec<_>>(),
            "counters": self.counters,
            "violation": self.violation,
            "samples": self.samples,
        })
    }

    pub fn from_json(v: &Value) -> Result<BlockResult, String> {
        let hexes = |k: &str| -> Result<Vec<u64>, String> {
            v[k].as_array()
                .ok_or(format!("block result: missing {k}"))?
                .iter()
                .map(|x| u64::from_str_radix(x.as_str().unwrap_or("?"), 16).map_err(|e| format!("{k}: {e}")))
                .collect()
        };
        let mut counters = BTreeMap::new();
        for (k, x) in v["counters"].as_object().ok_or("block result: missing counters")? {
            counters.insert(k.clone(), x.as_u64().unwrap_or(0));
        }
        Ok(BlockResult {
            first: v["first"].as_u64().ok_or("block result: missing first")?,
            count: v["count"].as_u64().ok_or("block result: missing count")?,
            digests: hexes("digests")?,
            stable_digests: if v["stable_digests"].is_array() { hexes("stable_digests")? } else { vec![] },
            distinct: hexes("distinct")?,
            counters,
            violation: if v["violation"].is_null() { None } else { Some(v["violation"].clone()) },
            samples: v["samples"].as_array().cloned().unwrap_or_default(),
        })
    }

    pub fn bump(&mut self, k: &str, n: u64) {
        *self.counters.entry(k.to_string()).or_insert(0) += n;
    }
}

#[derive(Debug)]
pub enum ChildError {
    Harness(String),
}

/// Names a child process is started under (argv[0]): the name of the program is an input of the
/// process that arrives without any libc call, and results must not depend on it. Which name a
/// child gets is a function of what it is asked to do, so that it is the same on every execution.
pub const PROGRAM_NAMES: [&str; 3] = ["fpsim", "lipe_find3", "/usr/local/bin/lfind"];

fn run_child(args: &[String], extra_env: &[(&str, String)]) -> Result<(i32, String, String), String> {
    run_child_named(args, extra_env, 0)
}

fn run_child_named(args: &[String], extra_env: &[(&str, String)], name: usize) -> Result<(i32, String, String), String> {
    use std::os::unix::process::CommandExt;
    let exe = std::env::current_exe().map_err(|e| format!("current_exe: {e}"))?;
    let mut cmd = Command::new(exe);
    cmd.arg0(PROGRAM_NAMES[name % PROGRAM_NAMES.len()]);
    cmd.args(args).stdin(Stdio::null()).stdout(Stdio::piped()).stderr(Stdio::piped());
    for (k, v) in extra_env {
        cmd.env(k, v);
    }
    let mut child = cmd.spawn().map_err(|e| format!("spawn child: {e}"))?;
    // A watchdog: a block of the concurrent engines finishes in seconds; one that is still running
    // after many minutes is blocked in the operating system — the rewritten copy of the library
    // waits on a std primitive the controlled scheduler does not own (a OnceLock/LazyLock
    // initialiser, a static shared between executions). It is killed and reported as such.
    let limit = child_time_limit(args);
    let done = std::sync::Arc::new(AtomicBool::new(false));
    let timed_out = std::sync::Arc::new(AtomicBool::new(false));
    let watchdog = limit.map(|limit| {
        let (done, timed_out, pid) = (done.clone(), timed_out.clone(), child.id());
        std::thread::spawn(move || {
            let start = Instant::now();
            while !done.load(Ordering::SeqCst) {
                if start.elapsed() > limit {
                    timed_out.store(true, Ordering::SeqCst);
                    let _ = Command::new("kill").args(["-9", &pid.to_string()]).status();
                    break;
                }
                std::thread::sleep(std::time::Duration::from_millis(200));
            }
        })
    });
    let mut out = String::new();
    let mut err = String::new();
    // stderr is small; read stdout first in a thread-free way by draining both sequentially is
    // fine because children write stderr only on failure and keep it short.
    let mut so = child.stdout.take().unwrap();
    let mut se = child.stderr.take().unwrap();
    let t = std::thread::spawn(move || {
        let mut s = String::new();
        let _ = se.read_to_string(&mut s);
        s
    });
    so.read_to_string(&mut out).map_err(|e| format!("read child stdout: {e}"))?;
    err.push_str(&t.join().unwrap_or_default());
    let status = child.wait().map_err(|e| format!("wait child: {e}"))?;
    done.store(true, Ordering::SeqCst);
    if let Some(w) = watchdog {
        let _ = w.join();
    }
    if timed_out.load(Ordering::SeqCst) {
        return Err(format!("{CHILD_TIMED_OUT}: {}", args.join(" ")));
    }
    Ok((status.code().unwrap_or(-1), out, err))
}

pub const CHILD_TIMED_OUT: &str = "child process blocked in the operating system and was killed";

/// Wall-clock limit for a child (only the blocks of the concurrent engines have one).
fn child_time_limit(args: &[String]) -> Option<std::time::Duration> {
    let conc = args.first().map(|a| a == "block").unwrap_or(false) && args.get(1).map(|e| e.ends_with("conc")).unwrap_or(false);
    let secs = std::env::var("VERIF_CONC_BLOCK_SECS").ok().and_then(|s| s.parse().ok()).unwrap_or(240u64);
    conc.then(|| std::time::Duration::from_secs(secs))
}

pub fn run_block_child(prop: &str, seed: u64, first: u64, count: u64, tier: &str) -> Result<BlockResult, String> {
    let args: Vec<String> = vec![
        "block".into(),
        prop.into(),
        seed.to_string(),
        first.to_string(),
        count.to_string(),
        tier.into(),
    ];
    // (the block's ordinal decides the name: two partitions of the same runs give a run two names)
    let (code, out, err) = run_child_named(&args, &[], (first / count.max(1)) as usize)?;
    if code != 0 {
        return Err(format!("block child {prop} first={first} exited {code}: {}", err.trim()));
    }
    let v: Value = serde_json::from_str(out.trim()).map_err(|e| format!("block child output: {e}: {}", &out[..out.len().min(200)]))?;
    BlockResult::from_json(&v)
}

/// Run `replay <file> --expect <class>` in a fresh process. Ok(true) = same class reproduced.
pub fn replay_reproduces(file: &Path, class: &str) -> Result<bool, String> {
    let args: Vec<String> = vec!["replay".into(), file.display().to_string(), "--expect".into(), class.into()];
    let (code, _out, err) = run_child(&args, &[])?;
    match code {
        1 => Ok(true),
        0 => Ok(false),
        c => Err(format!("replay child exited {c}: {}", err.trim())),
    }
}

pub struct Plan {
    pub prop: &'static str,
    pub tier: String,
    pub seed: u64,
    pub runs: u64,
    pub block: u64,
    pub workers: usize,
}

pub struct Reduced {
    pub runs_done: u64,
    pub digests: BTreeMap<u64, u64>,
    pub stable_digests: BTreeMap<u64, u64>,
    pub distinct: BTreeSet<u64>,
    pub counters: BTreeMap<String, u64>,
    /// (run index, violation json) of the lowest-indexed violating run
    pub violation: Option<(u64, Value)>,
    pub samples: Vec<Value>,
    pub blocks: u64,
}

/// Execute all blocks, `workers` child processes at a time. The reduction is by run index, so
/// the result does not depend on which worker ran what or in which order blocks finished.
pub fn run_plan(plan: &Plan) -> Result<Reduced, String> {
    let n_blocks = (plan.runs + plan.block - 1) / plan.block;
    let next = AtomicUsize::new(0);
    let stop = AtomicBool::new(false);
    let results: Mutex<Vec<(u64, Result<BlockResult, String>)>> = Mutex::new(vec![]);
    std::thread::scope(|s| {
        for _ in 0..plan.workers.max(1) {
            s.spawn(|| loop {
                if stop.load(Ordering::SeqCst) {
                    break;
                }
                let b = next.fetch_add(1, Ordering::SeqCst) as u64;
                if b >= n_blocks {
                    break;
                }
                let first = b * plan.block;
                let count = plan.block.min(plan.runs - first);
                let r = run_block_child(plan.prop, plan.seed, first, count, &plan.tier);
                if matches!(&r, Ok(br) if br.violation.is_some()) || r.is_err() {
                    // later blocks cannot contain a lower-indexed run; earlier ones still finish
                    stop.store(true, Ordering::SeqCst);
                }
                results.lock().unwrap().push((b, r));
            });
        }
    });
    let mut results = results.into_inner().unwrap();
    results.sort_by_key(|(b, _)| *b);
    let mut red = Reduced {
        runs_done: 0,
        digests: BTreeMap::new(),
        stable_digests: BTreeMap::new(),
        distinct: BTreeSet::new(),
        counters: BTreeMap::new(),
        violation: None,
        samples: vec![],
        blocks: results.len() as u64,
    };
    for (_, r) in results {
        let br = r?;
        for (i, d) in br.digests.iter().enumerate() {
            red.digests.insert(br.first + i as u64, *d);
            red.stable_digests.insert(br.first + i as u64, br.stable_digests.get(i).copied().unwrap_or(*d));
        }
        red.runs_done += br.digests.len() as u64;
        red.distinct.extend(br.distinct.iter().copied());
        for (k, v) in &br.counters {
            let e = red.counters.entry(k.clone()).or_insert(0);
            if k.starts_with("max_") {
                *e = (*e).max(*v);
            } else {
                *e += v;
            }
        }
        if red.samples.len() < 3 {
            red.samples.extend(br.samples.iter().cloned().take(3 - red.samples.len()));
        }
        if let Some(v) = br.violation {
            let idx = v["run_index"].as_u64().unwrap_or(br.first);
            if red.violation.as_ref().map_or(true, |(i, _)| idx < *i) {
                red.violation = Some((idx, v));
            }
        }
    }
    Ok(red)
}

pub fn scratch_dir() -> PathBuf {
    let d = verif_root().join("replays").join(".scratch");
    let _ = std::fs::create_dir_all(&d);
    d
}

pub fn write_json(path: &Path, v: &Value) -> Result<(), String> {
    if let Some(p) = path.parent() {
        std::fs::create_dir_all(p).map_err(|e| format!("mkdir {}: {e}", p.display()))?;
    }
    let text = serde_json::to_string_pretty(v).map_err(|e| e.to_string())?;
    std::fs::write(path, text + "\n").map_err(|e| format!("write {}: {e}", path.display()))
}

/// Generic delta debugging over a list: returns a (locally) minimal sublist for which `fails`
/// still holds. `fails` is only called on sublists that keep relative order.
/// Set by a minimiser whose budget is used up: every ddmin in progress returns what it has (building
/// candidates it may not test any more costs O(n^2) copies on a long list).
pub static DDMIN_STOP: std::sync::atomic::AtomicBool = std::sync::atomic::AtomicBool::new(false);

pub fn ddmin<T: Clone>(items: &[T], mut fails: impl FnMut(&[T]) -> bool) -> Vec<T> {
    let mut cur: Vec<T> = items.to_vec();
    let mut n = 2usize;
    while cur.len() >= 2 {
        if DDMIN_STOP.load(std::sync::atomic::Ordering::SeqCst) {
            return cur;
        }
        let chunk = (cur.len() + n - 1) / n;
        let mut reduced = false;
        let mut start = 0;
        while start < cur.len() {
            let end = (start + chunk).min(cur.len());
            if DDMIN_STOP.load(std::sync::atomic::Ordering::SeqCst) {
                return cur;
            }
            let candidate: Vec<T> = cur[..start].iter().chain(cur[end..].iter()).cloned().collect();
            if !candidate.is_empty() && fails(&candidate) {
                cur = candidate;
                n = n.saturating_sub(1).max(2);
                reduced = true;
                break;
            }
            start = end;
        }
        if !reduced {
            if n >= cur.len() {
                break;
            }
            n = (n * 2).min(cur.len());
        }
    }
    if cur.len() == 1 {
        // a single element may itself be unnecessary only if the empty list fails, which callers
        // exclude
    }
    cur
}

pub struct EvidenceInput<'a> {
    pub prop: &'a str,
    pub tier: &'a str,
    pub seed: u64,
    pub wall_s: f64,
    pub evaluations: u64,
    pub distinct_nontrivial: u64,
    pub rule: &'a str,
    pub samples: Vec<Value>,
    pub extra: Map<String, Value>,
    pub assumptions: Vec<String>,
    pub violations: u64,
}

/// "debug" when this binary was built without optimisation of the library's debug assertions
/// (the thorough tier runs a reduced pass under the dev profile first).
pub fn profile_pass() -> Option<String> {
    std::env::var("VERIF_PROFILE_PASS").ok().filter(|s| !s.is_empty())
}

/// Which build of the harness this is, as written into replay files: run.sh picks the matching
/// binary for a replay.
pub fn build_variant() -> &'static str {
    if cfg!(feature = "weakhash") {
        "weakhash"
    } else if cfg!(debug_assertions) {
        "debug"
    } else {
        "release"
    }
}

pub fn build_profile() -> &'static str {
    if cfg!(feature = "weakhash") {
        return "release, library copy with a seven-value DefaultHasher";
    }
    if cfg!(debug_assertions) {
        "dev (debug assertions and overflow checks on)"
    } else {
        "release (as shipped)"
    }
}

pub fn write_evidence(e: EvidenceInput) -> Result<(), String> {
    let mut coverage = Map::new();
    coverage.insert("evaluations".into(), json!(e.evaluations));
    coverage.insert("distinct_nontrivial".into(), json!(e.distinct_nontrivial));
    coverage.insert("rule".into(), json!(e.rule));
    coverage.insert("samples".into(), Value::Array(e.samples));
    for (k, v) in e.extra {
        coverage.insert(k, v);
    }
    coverage.insert("build_profile".into(), json!(build_profile()));
    let suffix = match profile_pass() {
        Some(p) => format!(".{p}"),
        None => {
            // fold in the summaries of preceding passes under other builds, if there are any
            for (file, key) in [("debug", "debug_profile_pass"), ("weakhash", "weak_hash_pass")] {
                let side = verif_root().join("evidence").join(format!("{}.{file}.json", e.prop));
                if let Ok(t) = std::fs::read_to_string(&side) {
                    if let Ok(v) = serde_json::from_str::<Value>(&t) {
                        if v["seed"].as_u64() == Some(e.seed) {
                            coverage.insert(
                                key.into(),
                                json!({"evaluations": v["coverage"]["evaluations"], "distinct_nontrivial": v["coverage"]["distinct_nontrivial"], "violations": v["violations"], "wall_s": v["wall_s"], "build": v["coverage"]["build_profile"]}),
                            );
                        }
                    }
                    let _ = std::fs::remove_file(&side);
                } else if file == "weakhash" && e.prop != "C16" {
                    coverage.insert(key.into(), json!("not run: the library's source has neither DefaultHasher nor a hand-written hash function with well-known constants (the pass rebuilds the library with seven-value digests so that collisions become reachable)"));
                }
            }
            String::new()
        }
    };
    let doc = json!({
        "property_id": e.prop,
        "tier": e.tier,
        "seed": e.seed,
        "level": "exploration",
        "coverage": coverage,
        "assumptions": e.assumptions,
        "wall_s": (e.wall_s * 1000.0).round() / 1000.0,
        "violations": e.violations,
    });
    write_json(&verif_root().join("evidence").join(format!("{}{}.json", e.prop, suffix)), &doc)
}

pub fn seed_from_env() -> u64 {
    match std::env::var("VERIF_SEED") {
        Ok(s) if !s.trim().is_empty() => s.trim().parse::<u64>().unwrap_or_else(|_| {
            // accept negative or huge values by hashing the text
            crate::rng::hash_str(s.trim())
        }),
        _ => DEFAULT_SEED,
    }
}

pub fn workers() -> usize {
    std::env::var("VERIF_WORKERS")
        .ok()
        .and_then(|s| s.parse().ok())
        .unwrap_or_else(|| std::thread::available_parallelism().map(|n| n.get()).unwrap_or(4))
}

pub struct Timer(Instant);
impl Timer {
    pub fn start() -> Self {
        Timer(Instant::now())
    }
    pub fn secs(&self) -> f64 {
        self.0.elapsed().as_secs_f64()
    }
}

/// Entries of /verif/known_findings.txt that are still open (`known:` lines).
/// Format: `known: property=<id> class=<violation class> key=<substring of detail> -- text`
pub fn known_findings(prop: &str) -> Vec<(String, String, String)> {
    let path = verif_root().join("known_findings.txt");
    let Ok(text) = std::fs::read_to_string(path) else { return vec![] };
    let mut out = vec![];
    for line in text.lines() {
        let line = line.trim();
        if !line.starts_with("known:") {
            continue;
        }
        let field = |name: &str| -> Option<String> {
            let tag = format!("{name}=");
            let at = line.find(&tag)? + tag.len();
            let rest = &line[at..];
            if let Some(stripped) = rest.strip_prefix('"') {
                stripped.find('"').map(|e| stripped[..e].to_string())
            } else {
                Some(rest.split_whitespace().next().unwrap_or("").to_string())
            }
        };
        if field("property").as_deref() != Some(prop) {
            continue;
        }
        let class = field("class").unwrap_or_default();
        let key = field("key").unwrap_or_default();
        let what = line.split(" -- ").nth(1).unwrap_or("").to_string();
        out.push((class, key, what));
    }
    out
}
