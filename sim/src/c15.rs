//! C15 — parsing and compiling are deterministic functions of their input, across repetitions,
//! caller threads, hash-key epochs, logger levels and clock behaviour; the only permitted
//! variation is the embedded epoch second of time tests, which must lie inside the compile call.

use crate::gen::{self, ActionKind, GenCfg};
use crate::hist::{Obs, Op, Scenario, Window, FIXED_PATH};
use crate::rng::Rng;
use crate::seam::CLOCK_FLOOR;
use crate::histcheck::{Judgement, Tier, Violation};
use std::collections::BTreeMap;

/// Swarm: every run draws its own shape.
pub fn subject_cfg(rng: &mut Rng, tier: Tier) -> GenCfg {
    let matchers = match rng.below(10) {
        0 => 0,
        1..=3 => rng.range(1, 5) as usize,
        4..=8 => rng.range(5, 40) as usize,
        _ => {
            if tier == Tier::Thorough {
                rng.range(40, 300) as usize
            } else {
                rng.range(20, 60) as usize
            }
        }
    };
    let pattern_pool = match rng.below(4) {
        0 => (matchers / 3).max(1),
        _ => matchers.max(1) * 2,
    };
    let n_actions = match rng.below(6) {
        0 => 0,
        1 | 2 => 1,
        _ => rng.range(2, 8) as usize,
    };
    let mut actions = vec![];
    let plain_only = rng.chance(1, 3);
    for _ in 0..n_actions {
        let k = if plain_only {
            *rng.pick(&[ActionKind::Print, ActionKind::PrintfNl, ActionKind::Quit])
        } else {
            *rng.pick(&gen::ALL_ACTIONS)
        };
        actions.push(k);
    }
    GenCfg {
        matchers,
        pattern_pool,
        time_tests: match rng.below(4) {
            0 => 0,
            1 => 1,
            _ => rng.range(1, 6) as usize,
        },
        fillers: rng.range(0, 8) as usize,
        actions,
        file_pool: rng.range(1, 4) as usize,
        file_base: rng.usize_below(24),
        leading_options: rng.chance(1, 4),
        misplaced_option: rng.chance(1, 6),
        allow_or: rng.chance(3, 4),
        allow_list: rng.chance(1, 4),
        allow_not: rng.chance(3, 4),
        formats_have_path: rng.chance(1, 2),
        rich_formats: rng.chance(1, 2),
        likely_true: 0,
        unsupported: if rng.chance(1, 6) { 1 } else { 0 },
        placeholder_strings: false,
        risky_specials: false,
        layout_variants: rng.chance(1, 4),
        hostile_strings: rng.chance(1, 2),
    }
}

#[derive(Clone, Copy, Debug)]
enum TickPolicy {
    Frozen,
    ZeroOrOne,
    UpToFive,
    Midnight,
    StepBack,
}

fn clock_script(rng: &mut Rng, policy: TickPolicy) -> Vec<i64> {
    let len = 8;
    match policy {
        TickPolicy::Frozen => vec![],
        TickPolicy::ZeroOrOne => (0..len).map(|_| rng.below(2) as i64).collect(),
        TickPolicy::UpToFive => (0..len).map(|_| rng.below(6) as i64).collect(),
        TickPolicy::Midnight => {
            let at = rng.usize_below(4);
            (0..len).map(|i| if i == at { 86_400 } else { rng.below(2) as i64 }).collect()
        }
        TickPolicy::StepBack => {
            let at = rng.usize_below(4);
            (0..len).map(|i| if i == at { -(rng.range(1, 3600) as i64) } else { rng.below(2) as i64 }).collect()
        }
    }
}

const SHIFTS: [i64; 12] = [0, 1, 59, 3_600, 86_400, 400 * 86_400, 1 << 33, -1, -59, -3_600, -86_400, -400 * 86_400];

/// Thorough tier only: a very long history over many distinct small inputs — state that needs
/// tens of thousands of calls or thousands of distinct inputs to go wrong (interner or cache
/// capacity, a 16-bit counter wrapping).
fn marathon(rng: &mut Rng) -> Scenario {
    let n_subjects = *rng.pick(&[3usize, 300, 5000]);
    let subjects: Vec<String> = (0..n_subjects)
        .map(|i| match i % 4 {
            0 => format!("-name f{i}.dat -mtime -{} -print", i % 90),
            1 => format!("-iname F{i}* -o -size +{}k -fprint out{}.txt", i % 900, i % 3),
            2 => format!("-path 'd{i}/*' -uid {} -print0", i % 5000),
            _ => format!("! -name f{i} -printf '%p {i}\\n'"),
        })
        .collect();
    let n_ops = *rng.pick(&[20_000usize, 70_000]);
    let mut ops = Vec::with_capacity(n_ops);
    for k in 0..n_ops {
        if k % 5000 == 4999 {
            ops.push(Op::ClockShift { delta: 86_400 });
        }
        ops.push(Op::Compile { subj: rng.usize_below(n_subjects), slot: 0, script: vec![], twice: false });
    }
    Scenario { subjects, paths: vec![FIXED_PATH.to_string()], clock_start: CLOCK_FLOOR + rng.below(1 << 30), hash_seed: rng.next_u64(), ops }
}

/// A history whose inputs are LONG and all different: 5-40 MiB of distinct pattern, file-name and
/// format text pass through one caller thread — state that is bounded in bytes rather than in
/// entries (an interner, arena or pool that is compacted or recycled when full) reaches its bound
/// here. Every input is compiled twice from one tree when it arrives, and some are compiled again
/// much later.
fn bulk_text(rng: &mut Rng) -> Scenario {
    let total: usize = *rng.pick(&[5usize, 12, 20, 40]) << 20;
    let mut unit = *rng.pick(&[1usize << 10, 4 << 10, 4 << 10, 16 << 10, 64 << 10]);
    while total / unit > 6000 {
        unit *= 2;
    }
    let n = total / unit;
    let style = if focus() { *rng.pick(&[0u64, 1, 0, 1, 5]) } else { rng.below(6) };
    let subjects: Vec<String> = (0..n)
        .map(|i| {
            let mut long = format!("p{i:05}");
            let seg = format!("/seg{}_{i}", ["a", "data", "x0"][i % 3]);
            while long.len() + seg.len() < unit {
                long.push_str(&seg);
            }
            match if style == 5 { i as u64 % 5 } else { style } {
                0 => format!("-name '*.log' -o -path '{long}/*'"),
                1 => format!("-iname 'x{long}' -print"),
                2 => format!("-name '*.log' -fprint {long}.txt"),
                3 => format!("-name '*.log' -printf '{long} %p\\n'"),
                _ => format!("-regex '.*{long}' -o -name '*.log'"),
            }
        })
        .collect();
    let mut ops = Vec::with_capacity(n + n / 20 + 40);
    for i in 0..n {
        ops.push(Op::Compile { subj: i, slot: i % 3, script: vec![], twice: true });
        if i % 40 == 39 {
            // an input seen long ago, or a recent one, again
            let back = match rng.below(3) {
                0 => rng.usize_below(4.min(i)),
                1 => i - rng.usize_below(4.min(i)),
                _ => rng.usize_below(i),
            };
            ops.push(Op::Compile { subj: back, slot: 0, script: vec![], twice: false });
        }
        if i % 1500 == 1499 {
            ops.push(Op::ClockShift { delta: 3_600 });
        }
    }
    for _ in 0..24 {
        ops.push(Op::Compile { subj: rng.usize_below(n), slot: 1, script: vec![], twice: false });
    }
    Scenario { subjects, paths: vec![FIXED_PATH.to_string()], clock_start: CLOCK_FLOOR + rng.below(1 << 30), hash_seed: rng.next_u64(), ops }
}

/// One expression that is big in one dimension (gen::giant_expression), in three layouts so that the
/// three kinds of comparison (second parse, clone, handles held) all see it; compiled twice, again
/// after a clock shift, and again on fresh threads.
fn giant(rng: &mut Rng) -> Scenario {
    let g = gen::giant_expression(rng);
    let subjects = vec![g.clone(), format!("{g} "), format!(" {g} ")];
    let mut ops = vec![Op::Compile { subj: 0, slot: 0, script: vec![], twice: true }];
    for s in 0..3 {
        ops.push(Op::Compare { a: s, b: s });
    }
    ops.push(Op::Compare { a: 0, b: 1 });
    ops.push(Op::ClockShift { delta: *rng.pick(&SHIFTS) });
    ops.push(Op::Compile { subj: 1, slot: 1, script: vec![], twice: false });
    ops.push(Op::NewEpoch);
    ops.push(Op::Compile { subj: 0, slot: 2, script: vec![], twice: false });
    ops.push(Op::SwitchThread { t: 1 });
    ops.push(Op::Compile { subj: 2, slot: 0, script: vec![], twice: true });
    Scenario { subjects, paths: vec![FIXED_PATH.to_string()], clock_start: CLOCK_FLOOR + rng.below(1 << 30), hash_seed: rng.next_u64(), ops }
}

/// Run indices 30 000-35 999 (the last sixth of the quick tier) are **focus runs**: the same generator
/// with the rare ingredients turned up — bulk-text histories one in 40 and only with interned kinds
/// of text (patterns), environment changes in every history. Two seeded changes whose catch in the
/// quick tier hung on a one-in-15 000 coincidence (c15o: aliased output files and a file-system
/// change between two compilations; c15ac: 8 MiB of distinct patterns) are what they are for.
fn focus() -> bool {
    (30_000..36_000).contains(&crate::histcheck::current_index())
}

pub fn scenario(rng: &mut Rng, tier: Tier) -> Scenario {
    if focus() && rng.chance(1, 40) {
        return bulk_text(rng);
    }
    if rng.chance(1, 1_500) {
        return giant(rng);
    }
    if tier == Tier::Thorough && rng.chance(1, 25_000) {
        return marathon(rng);
    }
    if rng.chance(1, 2_000) {
        return bulk_text(rng);
    }
    let n_subjects = rng.range(1, 4) as usize;
    let mut subjects = vec![];
    for _ in 0..n_subjects {
        if rng.chance(1, 12) {
            subjects.push(rng.pick(&gen::ERROR_SUBJECTS).to_string());
        } else if rng.chance(1, 40) {
            subjects.push(rng.pick(&gen::DEGENERATE_SUBJECTS).to_string());
        } else if rng.chance(1, 60) {
            subjects.push(gen::report_expression(rng));
        } else if rng.chance(1, 30) {
            subjects.push(gen::nested_expression(rng));
        } else {
            let cfg = subject_cfg(rng, tier);
            subjects.push(gen::expression(rng, &cfg));
        }
    }
    let policy = *rng.pick(&[
        TickPolicy::Frozen,
        TickPolicy::Frozen,
        TickPolicy::ZeroOrOne,
        TickPolicy::UpToFive,
        TickPolicy::Midnight,
        TickPolicy::StepBack,
    ]);
    // per-run op mix
    let w_parse = rng.range(1, 4);
    let w_compile = rng.range(3, 8);
    let w_render = rng.range(0, 3);
    let w_iomap = rng.range(0, 3);
    let w_unrelated = rng.range(0, 3);
    let w_clock = rng.range(0, 4);
    let w_thread = rng.range(0, 3);
    let w_epoch = rng.range(0, 3);
    let w_logger = rng.range(0, 2);
    let w_env = if focus() { rng.range(0, 2).max(1) * 3 } else { rng.range(0, 2) };
    let total = w_parse + w_compile + w_render + w_iomap + w_unrelated + w_clock + w_thread + w_epoch + w_logger + w_env;
    // one run in a hundred is a long history (state that needs many calls to build up: bounded
    // caches, counters, interners)
    let long = rng.chance(1, 100);
    let n_ops = if long { *rng.pick(&[150usize, 300, 600]) } else { rng.range(10, 60) as usize };
    let n_slots = rng.range(1, 4) as usize;
    let mut ops = vec![];
    for _ in 0..n_ops {
        let mut x = rng.below(total);
        let mut take = |w: u64| {
            if x < w {
                true
            } else {
                x -= w;
                false
            }
        };
        let op = if take(w_parse) {
            Op::Parse { subj: rng.usize_below(n_subjects) }
        } else if take(w_compile) {
            // some compiles use a frozen clock whatever the run policy, so that byte-identity
            // without any "modulo" is exercised in every run
            let p = if rng.chance(1, 3) { TickPolicy::Frozen } else { policy };
            Op::Compile {
                subj: rng.usize_below(n_subjects),
                slot: rng.usize_below(n_slots),
                script: clock_script(rng, p),
                twice: rng.chance(1, 5),
            }
        } else if take(w_render) {
            Op::Render { slot: rng.usize_below(n_slots), path: 0 }
        } else if take(w_iomap) {
            Op::IoMap { slot: rng.usize_below(n_slots) }
        } else if take(w_unrelated) {
            let k = rng.range(1, 3);
            let texts = (0..k)
                .map(|_| {
                    let mut cfg = subject_cfg(rng, Tier::Quick);
                    if rng.chance(1, 3) {
                        cfg.unsupported = 1;
                        cfg.time_tests = cfg.time_tests.max(1);
                    }
                    gen::expression(rng, &cfg)
                })
                .collect();
            Op::Unrelated { texts, script: clock_script(rng, policy) }
        } else if take(w_clock) {
            Op::ClockShift { delta: *rng.pick(&SHIFTS) }
        } else if take(w_thread) {
            Op::SwitchThread { t: rng.usize_below(crate::hist::MAX_THREADS) }
        } else if take(w_epoch) {
            Op::NewEpoch
        } else if take(w_env) {
            Op::EnvChange
        } else {
            Op::LoggerLevel { level: rng.below(5) as u8 }
        };
        ops.push(op);
    }
    if focus() {
        // every input compiled under three different environments (variables, simulated file system,
        // working directory) and a clock that stands still, back to back
        for subj in 0..n_subjects {
            for _ in 0..3 {
                ops.push(Op::Compile { subj, slot: 0, script: clock_script(rng, TickPolicy::Frozen), twice: false });
                ops.push(Op::EnvChange);
            }
        }
    }
    // one run in three also compares parse results with `==`: of one text parsed twice, and of a
    // text and a near miss of it (another unit for the same size, another spelling of a mode or
    // of a file name, the other case) — whatever the library calls equal must compile equally
    if rng.chance(1, 3) {
        for _ in 0..rng.range(1, 4) {
            let a = rng.usize_below(n_subjects);
            let b = if rng.chance(1, 4) {
                a
            } else {
                match gen::near_miss(rng, &subjects[a]) {
                    Some(v) => {
                        subjects.push(v);
                        subjects.len() - 1
                    }
                    None => a,
                }
            };
            let at = rng.usize_below(ops.len() + 1);
            ops.insert(at, if rng.chance(1, 2) { Op::Compare { a, b } } else { Op::Compare { a: b, b: a } });
        }
    }
    Scenario {
        subjects,
        paths: vec![FIXED_PATH.to_string()],
        clock_start: CLOCK_FLOOR + rng.below(1 << 30),
        hash_seed: rng.next_u64(),
        ops,
    }
}

/// Split a program into its non-digit skeleton and its maximal digit runs.
pub fn digit_runs(text: &str) -> (String, Vec<&str>) {
    let mut skeleton = String::with_capacity(text.len());
    let mut runs = vec![];
    let bytes = text.as_bytes();
    let mut i = 0;
    while i < bytes.len() {
        if bytes[i].is_ascii_digit() {
            let start = i;
            while i < bytes.len() && bytes[i].is_ascii_digit() {
                i += 1;
            }
            runs.push(&text[start..i]);
            skeleton.push('\u{1}');
        } else {
            let start = i;
            while i < bytes.len() && !bytes[i].is_ascii_digit() {
                i += 1;
            }
            skeleton.push_str(&text[start..i]);
        }
    }
    (skeleton, runs)
}

/// A digit run at or above the clock floor can only be clock-derived (user constants are kept
/// below it by the generator).
fn clock_sized(run: &str) -> Option<u128> {
    let t = run.trim_start_matches('0');
    if t.len() >= 10 {
        Some(t.parse::<u128>().unwrap_or(u128::MAX))
    } else {
        None
    }
}

/// Large numbers that the input itself explains: every number written in the expression, alone or
/// multiplied by a size unit.
pub fn input_constants(subject: &str) -> std::collections::BTreeSet<u128> {
    let mut out = std::collections::BTreeSet::new();
    // the unit multipliers themselves appear in size tests
    out.extend([1u128 << 30, 1 << 40]);
    for run in digit_runs(subject).1 {
        if let Ok(n) = run.parse::<u128>() {
            for mult in [1u128, 2, 512, 1024, 1 << 20, 1 << 30, 1 << 40] {
                out.insert(n.saturating_mul(mult));
            }
        }
    }
    out
}

/// Program with every in-window clock value replaced by a marker; Err if a clock-sized value
/// is neither inside the window of the call that produced the text nor explained by the input.
///
/// Returns (normalised text, values recognised as the embedded second, values that are both
/// inside the window and explained by the input — kept verbatim, but they may be the second).
fn normalise(text: &str, w: &Window, constants: &std::collections::BTreeSet<u128>) -> Result<(String, usize, usize), String> {
    let (skeleton, runs) = digit_runs(text);
    let (lo, hi) = (w.lo() as u128, w.hi() as u128);
    let mut out = String::with_capacity(text.len());
    let mut it = runs.iter();
    let mut embedded = 0;
    let mut ambiguous = 0;
    for ch in skeleton.chars() {
        if ch == '\u{1}' {
            let run = it.next().unwrap();
            match clock_sized(run) {
                Some(v) if constants.contains(&v) => {
                    if v >= lo && v <= hi {
                        ambiguous += 1;
                    }
                    out.push_str(run)
                }
                Some(v) if v >= lo && v <= hi => {
                    embedded += 1;
                    out.push_str("<T>");
                }
                Some(v) => {
                    return Err(format!(
                        "embedded value {v} is outside the compile call's clock window [{lo}, {hi}] (entry {}, exit {}, served {:?})",
                        w.entry, w.exit, w.served
                    ))
                }
                None => out.push_str(run),
            }
        } else {
            out.push(ch);
        }
    }
    Ok((out, embedded, ambiguous))
}

pub fn first_diff(a: &str, b: &str) -> String {
    let i = a.bytes().zip(b.bytes()).position(|(x, y)| x != y).unwrap_or(a.len().min(b.len()));
    let lo = i.saturating_sub(30);
    let cut = |s: &str| {
        let mut lo = lo;
        while !s.is_char_boundary(lo) {
            lo -= 1;
        }
        let mut hi = (i + 40).min(s.len());
        while !s.is_char_boundary(hi) {
            hi += 1;
        }
        s[lo..hi].to_string()
    };
    format!("at byte {i}: {:?} vs {:?}", cut(a), cut(b))
}

pub fn judge(sc: &Scenario, obs: &[(usize, Obs)]) -> Judgement {
    let mut j = Judgement::default();
    let mut hash_diverged = false;
    let fail = |class: &str, detail: String, ops: Vec<usize>| Violation { class: class.into(), detail, ops };
    if sc.subjects.iter().map(|s| s.len()).sum::<usize>() > 4 << 20 {
        *j.counters.entry("histories_with_more_than_4_MiB_of_distinct_input_text".into()).or_insert(0) += 1;
    }

    // ---- results the library calls equal compile to the same program and table
    for (i, o) in obs {
        if let Obs::Compared { a, b, parsed: true, trees_equal, options_equal, dumps_equal, cloned, handles_held, outcome_a, outcome_b } = o {
            if *handles_held > 0 {
                *j.counters.entry("comparisons_with_handles_on_subexpressions_held".into()).or_insert(0) += 1;
            }
            if *cloned {
                *j.counters.entry("clone_comparisons".into()).or_insert(0) += 1;
            }
            *j.counters.entry("tree_comparisons".into()).or_insert(0) += 1;
            if a == b && !(*trees_equal && *options_equal) {
                j.violation = Some(fail(
                    "parse-results-of-one-text-not-equal",
                    format!("subject {a}: {} do not compare equal (trees ==: {trees_equal}, options equal: {options_equal})", if *cloned { "a parse result and its clone" } else { "two parse results of the same text" }),
                    vec![*i],
                ));
                return j;
            }
            if *trees_equal && *options_equal {
                if !dumps_equal {
                    *j.counters.entry("equal_trees_with_different_dumps".into()).or_insert(0) += 1;
                }
                if let (Some((ta, tab_a)), Some((tb, tab_b))) = (outcome_a, outcome_b) {
                    if ta != tb || tab_a != tab_b {
                        let (x, y) = match (ta, tb) {
                            (Ok(x), Ok(y)) | (Err(x), Err(y)) | (Ok(x), Err(y)) | (Err(x), Ok(y)) => (x, y),
                        };
                        j.violation = Some(fail(
                            "equal-results-compile-differently",
                            format!(
                                "subjects {a} and {b}: the {} compare equal (==, and equal options) but compile, under a clock that stands still, to different {} {}",
                                if *cloned {
                                    "parse result and its clone".to_string()
                                } else if *handles_held > 0 {
                                    format!("parse results (the caller held {handles_held} clones of sub-expressions of the first while compiling it)")
                                } else {
                                    "parse results".to_string()
                                },
                                if ta != tb { "programs" } else { "destination tables" },
                                if ta != tb { first_diff(x, y) } else { format!("{tab_a:?} vs {tab_b:?}") }
                            ),
                            vec![*i],
                        ));
                        return j;
                    }
                }
            }
        }
    }

    // ---- parse determinism
    let mut parsed: BTreeMap<usize, Vec<(usize, Option<&Result<String, String>>)>> = BTreeMap::new();
    for (i, o) in obs {
        match o {
            Obs::Parsed { subj, dump } => parsed.entry(*subj).or_default().push((*i, Some(dump))),
            Obs::Panicked { what: "parse", subj_or_slot, .. } => parsed.entry(*subj_or_slot).or_default().push((*i, None)),
            _ => {}
        }
    }
    for (subj, list) in &parsed {
        let panics = list.iter().filter(|(_, d)| d.is_none()).count();
        if panics == list.len() {
            j.discarded = true;
            continue;
        }
        if panics > 0 {
            let a = list.iter().find(|(_, d)| d.is_none()).unwrap().0;
            let b = list.iter().find(|(_, d)| d.is_some()).unwrap().0;
            j.violation = Some(fail(
                "parse-panics-sometimes",
                format!("subject {subj}: parse panicked at op {a} but returned at op {b}"),
                vec![a, b],
            ));
            return j;
        }
        let (i0, d0) = (list[0].0, list[0].1.unwrap());
        for (i, d) in &list[1..] {
            if d.unwrap() != d0 {
                let (a, b) = match (d0, d.unwrap()) {
                    (Ok(a), Ok(b)) | (Err(a), Err(b)) | (Ok(a), Err(b)) | (Err(a), Ok(b)) => (a, b),
                };
                j.violation = Some(fail(
                    "parse-differs",
                    format!("subject {subj}: parse results of ops {i0} and {i} differ {}", first_diff(a, b)),
                    vec![i0, *i],
                ));
                return j;
            }
        }
    }

    // ---- compile determinism modulo clock
    struct C<'a> {
        op: usize,
        window: &'a Window,
        text: &'a Result<String, String>,
        table: &'a crate::hist::Table,
        time_tests: usize,
        resources: usize,
        unknown_tests: bool,
        probe: u64,
    }
    let mut compiled: BTreeMap<usize, Vec<Option<C>>> = BTreeMap::new();
    let mut compile_ops: BTreeMap<usize, Vec<usize>> = BTreeMap::new();
    for (i, o) in obs {
        match o {
            Obs::Compiled { subj, window, text, table, time_tests, resources, unknown_tests, probe_order, .. } => {
                compiled.entry(*subj).or_default().push(Some(C {
                    op: *i,
                    window,
                    text,
                    table,
                    time_tests: *time_tests,
                    resources: *resources,
                    unknown_tests: *unknown_tests,
                    probe: *probe_order,
                }));
                compile_ops.entry(*subj).or_default().push(*i);
            }
            Obs::Panicked { what: "compile", subj_or_slot, .. } => {
                compiled.entry(*subj_or_slot).or_default().push(None);
                compile_ops.entry(*subj_or_slot).or_default().push(*i);
            }
            _ => {}
        }
    }
    for (subj, list) in &compiled {
        let ops = &compile_ops[subj];
        let panics = list.iter().filter(|c| c.is_none()).count();
        if panics == list.len() {
            j.discarded = true;
            continue;
        }
        if panics > 0 {
            let a = ops[list.iter().position(|c| c.is_none()).unwrap()];
            let b = ops[list.iter().position(|c| c.is_some()).unwrap()];
            j.violation = Some(fail(
                "compile-panics-sometimes",
                format!("subject {subj}: compile panicked at op {a} but returned at op {b}"),
                vec![a, b],
            ));
            return j;
        }
        let list: Vec<&C> = list.iter().map(|c| c.as_ref().unwrap()).collect();
        let constants = sc.subjects.get(*subj).map(|t| input_constants(t)).unwrap_or_default();
        let mut reference: Option<(usize, String)> = None;
        for c in &list {
            j.bump("compiles_compared", 1);
            let norm = match c.text {
                Err(e) => format!("ERR {e}"),
                Ok(t) => match normalise(t, c.window, &constants) {
                    Err(why) => {
                        j.violation = Some(fail("embedded-second-outside-call", format!("subject {subj}, op {}: {why}", c.op), vec![c.op]));
                        return j;
                    }
                    Ok((norm, embedded, ambiguous)) => {
                        if !c.unknown_tests && c.time_tests >= 1 && embedded == 0 && ambiguous == 0 {
                            j.violation = Some(fail(
                                "clock-not-embedded",
                                format!(
                                    "subject {subj}, op {}: tree has {} time test(s) but the program embeds no second of the compile call (window [{}, {}])",
                                    c.op, c.time_tests, c.window.lo(), c.window.hi()
                                ),
                                vec![c.op],
                            ));
                            return j;
                        }
                        if !c.unknown_tests && c.time_tests == 0 && embedded > 0 {
                            j.violation = Some(fail(
                                "clock-embedded-without-time-test",
                                format!("subject {subj}, op {}: no time test in the tree but the program embeds the clock", c.op),
                                vec![c.op],
                            ));
                            return j;
                        }
                        norm
                    }
                },
            };
            match &reference {
                None => reference = Some((c.op, norm)),
                Some((op0, n0)) => {
                    if *n0 != norm {
                        j.violation = Some(fail(
                            "program-differs",
                            format!("subject {subj}: programs compiled at ops {op0} and {} differ beyond the embedded second, {}", c.op, first_diff(n0, &norm)),
                            vec![*op0, c.op],
                        ));
                        return j;
                    }
                }
            }
        }
        // destination tables
        for c in &list[1..] {
            if c.table != list[0].table {
                j.violation = Some(fail(
                    "table-differs",
                    format!("subject {subj}: destination tables of ops {} and {} differ: {:?} vs {:?}", list[0].op, c.op, list[0].table, c.table),
                    vec![list[0].op, c.op],
                ));
                return j;
            }
        }
        // non-triviality and reach
        let oks: Vec<&&C> = list.iter().filter(|c| c.text.is_ok()).collect();
        if oks.len() >= 2 && (oks[0].resources >= 2 || oks[0].time_tests >= 1) {
            let moved = oks.iter().any(|c| c.window.lo() != oks[0].window.lo() || c.probe != oks[0].probe);
            if moved {
                j.nontrivial = true;
            }
        }
        if list.iter().any(|c| c.probe != list[0].probe) {
            hash_diverged = true;
        }
    }

    if hash_diverged {
        j.bump("runs_where_hash_iteration_order_differed_between_compiles", 1);
    }

    // ---- slots: renders for the fixed path and tables agree with the compile that filled them
    let mut slot_state: BTreeMap<usize, (usize, &String, &crate::hist::Table)> = BTreeMap::new();
    for (i, o) in obs {
        match o {
            Obs::Compiled { slot, text: Ok(t), table, .. } => {
                slot_state.insert(*slot, (*i, t, table));
            }
            Obs::Rendered { slot, path: 0, text, .. } => {
                if let Some((ci, t, _)) = slot_state.get(slot) {
                    if *t != text {
                        j.violation = Some(fail(
                            "render-differs-from-compile",
                            format!("slot {slot}: render at op {i} differs from the program observed at compile op {ci}, {}", first_diff(t, text)),
                            vec![*ci, *i],
                        ));
                        return j;
                    }
                }
            }
            Obs::IoMapped { slot, table } => {
                if let Some((ci, _, t)) = slot_state.get(slot) {
                    if *t != table {
                        j.violation = Some(fail(
                            "table-changed",
                            format!("slot {slot}: table at op {i} differs from the table observed at compile op {ci}: {:?} vs {:?}", t, table),
                            vec![*ci, *i],
                        ));
                        return j;
                    }
                }
            }
            Obs::Panicked { what, subj_or_slot, message } if *what == "render" || *what == "io_map" => {
                j.violation = Some(fail(
                    "render-panicked",
                    format!("{what} on slot {subj_or_slot} panicked at op {i}: {message}"),
                    vec![*i],
                ));
                return j;
            }
            _ => {}
        }
    }
    j
}

pub static PROP: crate::histcheck::HistProp = crate::histcheck::HistProp {
    id: "C15",
    scenario,
    judge,
    rule: "One case = one seeded call history (10-60 operations, one in a hundred 150-600, in the thorough tier rare marathons of 20000-70000 compiles; one history in 2000 passes 5-40 MiB of distinct long inputs through one caller, one in 1500 is about one giant expression (300-1000 distinct patterns or output files, or one string of 70 000 / 1 100 000 bytes): parse, compile [once or twice from one tree], render, io_map, unrelated compilations that may fail part-way, clock shifts incl. backward steps and 2^33 s jumps, per-read clock scripts inside compile calls, caller-thread switches, hash-key epoch changes on fresh OS threads, logger level flips, environment changes [variables, simulated file system, working directory, CPU set]) over 1-4 generated expressions (well-formed ones from the whole vocabulary with boundary numbers and layout variants; ill-formed ones: GNU spellings the parser rejects, compile-refused constructs mid-expression), executed against the real parse/compile/scheme/io_map in a fresh child process per block; a sample of the histories is executed again in six further fresh processes with the same and with different hash seeds. Non-trivial = the history holds at least two successful compiles of one expression that has >= 2 hashed resources (distinct name/path patterns, printers) or >= 1 time test, and between them the clock window or the hash-key epoch/thread differs. distinct_nontrivial counts distinct shapes (hash of the operation-kind sequence with subjects, thread ids, shift signs and script activity) among the non-trivial histories.",
    assumptions: &[
        "std reaches the wall clock only through libc clock_gettime and hash keys only through libc getrandom (both interposed by the harness binary; verified live at the start of every check)",
        "a digit run >= 10^9 in a program is either a number written in the expression (alone or times a size unit) or clock-derived; the simulated clock stays within [10^9 + 7, 2^40 - 12345] so that its clamped values are not round constants",
        "pre-1970 clocks are outside the property's domain (time tests embed an epoch second)",
        "caller threads are real OS threads released one operation at a time; no two calls into the library overlap",
    ],
    quick_runs: 36_000,
    thorough_runs: 1_000_000,
    block: 500,
    cross_process: true,
};
