#!/bin/sh
# ./run.sh <C15|C16|C20> <quick|thorough>   build fpsim against /repo's working tree, run one check
# ./run.sh replay <file>                    re-execute a replay file in a fresh process
# ./run.sh build                            build only
# exit: 0 property held on everything explored; 1 violation (VIOLATION line printed); 2 harness/build error
set -u
ROOT="$(cd "$(dirname "$0")" && pwd)"
export VERIF_ROOT="$ROOT"
export CARGO_NET_OFFLINE=true
export CARGO_TARGET_DIR="$ROOT/target"
mkdir -p "$ROOT/evidence" "$ROOT/replays"
# A copy of the library whose std::sync / std::thread paths and thread_local! are rewritten to the
# controlled scheduler's (shuttle) equivalents, regenerated from /repo's working tree on every build.
# On the pinned tree the library uses none of them and the copy is identical; if a change
# introduces locks, atomics or thread-locals, the concurrent pass of C20 can interleave inside calls.
make_shadow() {
    SH="$ROOT/target/shadow/lfp-shuttled"
    rm -rf "$SH"; mkdir -p "$SH"
    cp -r /repo/src "$SH/src"
    # `use std::{sync::mpsc, thread};` -> one use per item, so that the rewriting below sees every path
    python3 "$ROOT/scripts/expand_uses.py" "$SH/src" 2>/dev/null || true
    find "$SH/src" -name '*.rs' -print0 | xargs -0 sed -i -E \
        -e 's/^(\s*(pub(\([a-z: ]+\))?\s+)?use\s+)(::)?std::thread\s*;/\1crate::__verif_thread as thread;/' \
        -e 's/^(\s*(pub(\([a-z: ]+\))?\s+)?use\s+)(::)?std::sync\s*;/\1crate::__verif_sync as sync;/' \
        -e 's/(::)?\bstd::sync\b/crate::__verif_sync/g' \
        -e 's/(::)?\bcore::sync::atomic\b/crate::__verif_sync::atomic/g' \
        -e 's/(::)?\bstd::thread\b/crate::__verif_thread/g' \
        -e 's/(^|[^:A-Za-z_])thread_local!/\1shuttle::thread_local!/g'
    cat > "$SH/src/__verif_sync.rs" <<'RS'
//! std::sync as seen by the rewritten copy: shuttle's primitives where it has them, std's otherwise.
#![allow(unused_imports)]
pub use std::sync::*;
pub use shuttle::sync::{Barrier, Condvar, Mutex, MutexGuard, Once, RwLock, RwLockReadGuard, RwLockWriteGuard};
pub mod atomic {
    pub use std::sync::atomic::*;
    pub use shuttle::sync::atomic::{
        AtomicBool, AtomicI16, AtomicI32, AtomicI64, AtomicI8, AtomicIsize, AtomicPtr, AtomicU16, AtomicU32, AtomicU64, AtomicU8, AtomicUsize,
    };
}
pub mod mpsc {
    pub use shuttle::sync::mpsc::*;
}
RS
    cat > "$SH/src/__verif_thread.rs" <<'RS'
#![allow(unused_imports)]
pub use std::thread::*;
pub use shuttle::thread::{current, park, scope, sleep, spawn, yield_now, Builder, JoinHandle, Thread, ThreadId};
RS
    printf '\n#[allow(dead_code)]\nmod __verif_sync;\n#[allow(dead_code)]\nmod __verif_thread;\n' >> "$SH/src/lib.rs"
    {
        printf '[package]\nname = "lipe-find-parser-shuttled"\nversion = "0.0.0"\nedition = "2021"\n\n[lib]\nname = "lipe_find_parser_shuttled"\npath = "src/lib.rs"\n\n[dependencies]\nshuttle = "0.9.3"\n'
        # the library's own dependencies, verbatim
        awk '/^\[dependencies\]/{f=1;next} /^\[/{f=0} f' /repo/Cargo.toml
    } > "$SH/Cargo.toml"
}
# words of the library's own string literals, used by the generators as user strings
make_dict() {
    python3 "$ROOT/scripts/make_dict.py" /repo "$ROOT/target/dict.json" 2>/dev/null || echo '[]' > "$ROOT/target/dict.json"
}
build() {
    make_shadow
    make_dict
    # feature sets from the fullest to the barest; the first that builds is used.
    #   shuttled: the concurrent passes (need the rewritten copy to compile and CompiledExpression to be Send + Sync)
    #   astwalk:  the walk over the public syntax tree (sim/src/astwalk.rs: needs the tree to keep its shape)
    for feats in shuttled,astwalk shuttled astwalk ""; do
        if (cd "$ROOT/sim" && cargo build --release --offline --features "$feats" >"$ROOT/target.build.log" 2>&1); then
            case "$feats" in
                shuttled,astwalk) ;;
                shuttled) echo "note: sim/src/astwalk.rs does not build against this tree (the syntax tree changed shape?); comparisons with handles on sub-expressions held are skipped (see $ROOT/target.build.log.astwalk)" >&2 ;;
                *) echo "note: the rewritten copy of the library does not build; the concurrent passes are skipped (see $ROOT/target.build.log.shuttled)" >&2 ;;
            esac
            return 0
        fi
        case "$feats" in
            shuttled,astwalk) cp "$ROOT/target.build.log" "$ROOT/target.build.log.astwalk" ;;
            shuttled) cp "$ROOT/target.build.log" "$ROOT/target.build.log.shuttled" ;;
        esac
    done
    echo "harness error: build of fpsim against /repo failed (see $ROOT/target.build.log)" >&2
    tail -n 30 "$ROOT/target.build.log" >&2
    exit 2
}
# A copy of the library in which std's unkeyed DefaultHasher is replaced by a hasher with a
# seven-value digest, and the harness built against it (fpsim-weak). Hash collisions are legal events
# that SipHash makes astronomically rare; code that takes a digest for the identity of a string (a memo
# keyed by `hasher.finish()`) is wrong for colliding inputs, which exist, and only this makes them
# reachable. Hand-written hashes recognised by their well-known constants (scripts/weaken_hashes.py) are
# reduced modulo 7 in the same copy. Nothing is built when the source has neither.
uses_default_hasher() { grep -rq "DefaultHasher" /repo/src 2>/dev/null || python3 "$ROOT/scripts/weaken_hashes.py" --check /repo/src 2>/dev/null; }
build_weak() {
    SH="$ROOT/target/shadow/lfp-weakhash"
    rm -rf "$SH"; mkdir -p "$SH"
    cp -r /repo/src "$SH/src"; cp /repo/Cargo.toml "$SH/Cargo.toml"
    find "$SH/src" -name '*.rs' -print0 | xargs -0 sed -i -E \
        -e 's/(::)?\bstd::collections::hash_map::DefaultHasher\b/crate::__verif_hash::DefaultHasher/g' \
        -e 's/(::)?\bstd::hash::DefaultHasher\b/crate::__verif_hash::DefaultHasher/g' \
        -e 's/(^|[^:A-Za-z_])hash_map::DefaultHasher\b/\1crate::__verif_hash::DefaultHasher/g' \
        -e 's/^(\s*use\s+std::hash::\{[^}]*)\bDefaultHasher\b\s*,?/\1/' \
        -e 's/^(\s*use\s+std::collections::hash_map::\{[^}]*)\bDefaultHasher\b\s*,?/\1/'
    # files that named the type through a grouped import get it back from the stand-in
    for f in $(grep -rl "DefaultHasher" "$SH/src" --include='*.rs'); do
        grep -q "__verif_hash::DefaultHasher" "$f" || sed -i '1i #[allow(unused_imports)] use crate::__verif_hash::DefaultHasher;' "$f"
    done
    # hand-written general-purpose hashes (FNV, CRC, djb2, ...: recognised by their constants): result modulo 7
    python3 "$ROOT/scripts/weaken_hashes.py" --rewrite "$SH/src" >/dev/null 2>&1 || true
    cat > "$SH/src/__verif_hash.rs" <<'RS'
//! Stand-in for std's DefaultHasher: same interface, a digest with seven values.
#[derive(Clone, Debug, Default)]
pub struct DefaultHasher(u64);
impl DefaultHasher {
    pub fn new() -> DefaultHasher {
        DefaultHasher(0)
    }
}
impl std::hash::Hasher for DefaultHasher {
    fn write(&mut self, bytes: &[u8]) {
        for b in bytes {
            self.0 = self.0.wrapping_mul(3).wrapping_add(*b as u64);
        }
    }
    fn finish(&self) -> u64 {
        self.0 % 7
    }
}
RS
    printf '\n#[allow(dead_code)]\nmod __verif_hash;\n' >> "$SH/src/lib.rs"
    if ! (cd "$ROOT/sim-weak" && cargo build --release --offline --features astwalk >"$ROOT/target.build.log.weak" 2>&1) &&
       ! (cd "$ROOT/sim-weak" && cargo build --release --offline >"$ROOT/target.build.log.weak" 2>&1); then
        echo "note: the copy of the library with the weak DefaultHasher does not build; the weak-hash pass is skipped (see $ROOT/target.build.log.weak)" >&2
        return 1
    fi
    return 0
}
build_debug() {
    make_shadow
    make_dict
    for feats in shuttled,astwalk shuttled astwalk ""; do
        if (cd "$ROOT/sim" && cargo build --offline --features "$feats" >"$ROOT/target.build.log" 2>&1); then return 0; fi
    done
    echo "harness error: dev-profile build of fpsim against /repo failed (see $ROOT/target.build.log)" >&2
    tail -n 30 "$ROOT/target.build.log" >&2
    exit 2
}
# build the Miri sysroot and the small program interpreted by the Miri pass of C20 (best effort)
build_miri() {
    if cargo +nightly miri --version >/dev/null 2>&1; then
        (cd "$ROOT/miri" && CARGO_TARGET_DIR="$ROOT/target/miri" MIRIFLAGS="-Zmiri-seed=0" cargo +nightly miri run --offline --quiet -- 0 >/dev/null 2>&1) || true
    fi
}
case "${1:-}" in
    build) build; build_miri; exit 0 ;;
    replay)
        build
        # a replay file found by the dev-profile pass is replayed with the dev-profile binary
        if grep -q '"profile": *"weakhash"' "$2" 2>/dev/null; then
            if uses_default_hasher && build_weak; then exec "$ROOT/target/release/fpsim-weak" replay "$2"; fi
            # the tree no longer uses DefaultHasher (or the copy does not build): nothing to replay against
            echo "replay $2: no violation (the weak-hash copy of the library is not applicable to this tree)"; exit 0
        fi
        if grep -q '"profile": *"debug"' "$2" 2>/dev/null; then
            build_debug; exec "$ROOT/target/debug/fpsim" replay "$2"
        fi
        exec "$ROOT/target/release/fpsim" replay "$2" ;;
    C15|C16|C20)
        build
        if [ "$1" != C16 ] && uses_default_hasher && build_weak; then
            # reduced history pass against the copy with the weak DefaultHasher
            runs=10000; [ "${2:-quick}" = thorough ] && runs=200000
            VERIF_PROFILE_PASS=weakhash VERIF_RUNS=$runs "$ROOT/target/release/fpsim-weak" check "$1" quick
            code=$?
            if [ "$code" != 0 ]; then exit "$code"; fi
        fi
        if [ "${2:-quick}" = thorough ] && [ -z "${VERIF_SKIP_DEBUG_PASS:-}" ]; then
            # reduced pass with the library built under the dev profile (debug assertions, overflow checks)
            build_debug
            VERIF_PROFILE_PASS=debug "$ROOT/target/debug/fpsim" check "$1" quick
            code=$?
            if [ "$code" != 0 ]; then exit "$code"; fi
        fi
        exec "$ROOT/target/release/fpsim" check "$1" "${2:-quick}" ;;
    selfcheck) build; exec "$ROOT/target/release/fpsim" selfcheck ;;
    *) echo "usage: $0 <C15|C16|C20> <quick|thorough> | replay <file> | build | selfcheck" >&2; exit 2 ;;
esac
