#!/bin/sh
# ./run.sh <C15|C16|C20> <quick|thorough>   build fpsim against /repo's working tree, run one check
# ./run.sh replay <file>                    re-execute a replay file in a fresh process
# ./run.sh build                            build only
# exit: 0 property held on everything explored; 1 violation (VIOLATION line printed); 2 harness/build error
set -u
ROOT="$(cd "$(dirname "$0")" && pwd)"
export VERIF_ROOT="$ROOT"
export CARGO_NET_OFFLINE=true
export CARGO_TARGET_DIR="$ROOT/target"
mkdir -p "$ROOT/evidence" "$ROOT/replays"
build() {
    if ! (cd "$ROOT/sim" && cargo build --release --offline >"$ROOT/target.build.log" 2>&1); then
        echo "harness error: build of fpsim against /repo failed (see $ROOT/target.build.log)" >&2
        tail -n 30 "$ROOT/target.build.log" >&2
        exit 2
    fi
}
build_debug() {
    if ! (cd "$ROOT/sim" && cargo build --offline >"$ROOT/target.build.log" 2>&1); then
        echo "harness error: dev-profile build of fpsim against /repo failed (see $ROOT/target.build.log)" >&2
        tail -n 30 "$ROOT/target.build.log" >&2
        exit 2
    fi
}
case "${1:-}" in
    build) build; exit 0 ;;
    replay)
        build
        # a replay file found by the dev-profile pass is replayed with the dev-profile binary
        if grep -q '"profile": *"debug"' "$2" 2>/dev/null; then
            build_debug; exec "$ROOT/target/debug/fpsim" replay "$2"
        fi
        exec "$ROOT/target/release/fpsim" replay "$2" ;;
    C15|C16|C20)
        build
        if [ "${2:-quick}" = thorough ] && [ -z "${VERIF_SKIP_DEBUG_PASS:-}" ]; then
            # reduced pass with the library built under the dev profile (debug assertions, overflow checks)
            build_debug
            VERIF_PROFILE_PASS=debug "$ROOT/target/debug/fpsim" check "$1" quick
            code=$?
            if [ "$code" != 0 ]; then exit "$code"; fi
        fi
        exec "$ROOT/target/release/fpsim" check "$1" "${2:-quick}" ;;
    selfcheck) build; exec "$ROOT/target/release/fpsim" selfcheck ;;
    *) echo "usage: $0 <C15|C16|C20> <quick|thorough> | replay <file> | build | selfcheck" >&2; exit 2 ;;
esac
